//! Lexer definitions ("specs"): structure, flattening (scoping rules), printing as `lexer!` source.

use crate::re::{print_re, Env, Paren, Re};
use serde::{Deserialize, Serialize};

#[derive(Clone, Debug, PartialEq, Eq, Hash, Serialize, Deserialize)]
pub enum Kind {
    /// `re,`
    Skip,
    /// `re = id,`
    Simple,
    /// `re => |l| l.return_(id)` (logged)
    Ret,
    /// `re => |l| l.continue_()` (logged)
    Cont,
    /// `re => |l| { l.reset_match(); l.continue_() }` (logged)
    RCont,
    /// `re => |l| l.switch(set k)` (logged)
    Sw(u32),
    /// `re => |l| l.switch_and_return(set k, id)` (logged)
    SwRet(u32),
    /// `re => |l|` decision popped from the script in the user state
    Script,
    /// `re =? |l| l.return_(Ok(id))`
    FOk,
    /// `re =? |l| l.return_(Err(nonce))`
    FErr(u32),
    /// `re =?` scripted
    FScript,
}

impl Kind {
    pub fn fallible(&self) -> bool {
        matches!(self, Kind::FOk | Kind::FErr(_) | Kind::FScript)
    }
    pub fn logged(&self) -> bool {
        !matches!(self, Kind::Skip | Kind::Simple)
    }
    pub fn uses_switch(&self) -> bool {
        matches!(self, Kind::Sw(_) | Kind::SwRet(_))
    }
}

#[derive(Clone, Debug, PartialEq, Eq, Hash, Serialize, Deserialize)]
pub struct Rule {
    pub re: Re,
    pub ctx: Option<Re>,
    pub kind: Kind,
}

#[derive(Clone, Debug, PartialEq, Eq, Hash, Serialize, Deserialize)]
pub enum Inner {
    Let(String, Re),
    Rule(Rule),
}

#[derive(Clone, Debug, PartialEq, Eq, Hash, Serialize, Deserialize)]
pub enum Top {
    Let(String, Re),
    ErrorType,
    RuleSet { name: String, items: Vec<Inner> },
    /// Unnamed top-level rule (only when there are no rule sets).
    Rule(Rule),
}

#[derive(Clone, Debug, PartialEq, Eq, Hash, Serialize, Deserialize)]
pub enum ParenStyle {
    Full,
    Minimal,
    Redundant(u64),
}

impl ParenStyle {
    pub fn to_paren(&self) -> Paren {
        match self {
            ParenStyle::Full => Paren::Full,
            ParenStyle::Minimal => Paren::Minimal,
            ParenStyle::Redundant(b) => Paren::Redundant(*b),
        }
    }
}

#[derive(Clone, Debug, PartialEq, Eq, Hash, Serialize, Deserialize)]
pub struct Spec {
    /// Outer attributes besides `#[derive(Clone)]`, e.g. `#[derive(Debug)]` or a doc comment.
    pub extra_attrs: Vec<String>,
    /// Visibility keyword(s) in front of the lexer name ("" / "pub" / "pub(crate)").
    pub vis: String,
    pub items: Vec<Top>,
    pub paren: ParenStyle,
    /// Header without a user state type (`pub Lexer -> u32;`): only for definitions whose rules
    /// are all `re,` or `re = id,` (nothing is logged, no decisions are scripted).
    #[serde(default)]
    pub stateless: bool,
}

#[derive(Clone, Debug)]
pub struct FlatRule {
    pub id: u32,
    pub re: Re,
    pub ctx: Option<Re>,
    pub kind: Kind,
}

#[derive(Clone, Debug)]
pub struct FlatSet {
    pub name: String,
    pub rules: Vec<FlatRule>,
}

/// A spec with variables resolved by the documented scoping rules and rules numbered in
/// declaration order (the number is the token value returned by the rule).
#[derive(Clone, Debug)]
pub struct Flat {
    pub sets: Vec<FlatSet>,
    pub named: bool,
    pub fallible: bool,
}

#[derive(Debug, Clone, PartialEq, Eq)]
pub enum FlatError {
    Unbound(String),
}

impl Spec {
    pub fn named(&self) -> bool {
        self.items.iter().any(|t| matches!(t, Top::RuleSet { .. }))
    }

    pub fn has_error_type(&self) -> bool {
        self.items.iter().any(|t| matches!(t, Top::ErrorType))
    }

    /// All rules are `re,` or `re = id,`: the definition does not need the harness's user state.
    pub fn can_be_stateless(&self) -> bool {
        self.rules().iter().all(|r| matches!(r.kind, Kind::Skip | Kind::Simple)) && !self.has_error_type()
    }

    pub fn set_names(&self) -> Vec<String> {
        self.items
            .iter()
            .filter_map(|t| match t {
                Top::RuleSet { name, .. } => Some(name.clone()),
                _ => None,
            })
            .collect()
    }

    pub fn n_rules(&self) -> usize {
        self.items
            .iter()
            .map(|t| match t {
                Top::Rule(_) => 1,
                Top::RuleSet { items, .. } => items
                    .iter()
                    .filter(|i| matches!(i, Inner::Rule(_)))
                    .count(),
                _ => 0,
            })
            .sum()
    }

    pub fn rules(&self) -> Vec<&Rule> {
        let mut v = vec![];
        for t in &self.items {
            match t {
                Top::Rule(r) => v.push(r),
                Top::RuleSet { items, .. } => {
                    for i in items {
                        if let Inner::Rule(r) = i {
                            v.push(r)
                        }
                    }
                }
                _ => {}
            }
        }
        v
    }

    pub fn rules_mut(&mut self) -> Vec<&mut Rule> {
        let mut v = vec![];
        for t in &mut self.items {
            match t {
                Top::Rule(r) => v.push(r),
                Top::RuleSet { items, .. } => {
                    for i in items {
                        if let Inner::Rule(r) = i {
                            v.push(r)
                        }
                    }
                }
                _ => {}
            }
        }
        v
    }

    /// Scoping as documented: a top-level `let` is visible in everything after it, a `let` inside
    /// a rule set only in the rest of that rule set.
    pub fn flatten(&self) -> Result<Flat, FlatError> {
        let mut env: Env = Env::new();
        let mut sets: Vec<FlatSet> = vec![];
        let mut unnamed: Vec<FlatRule> = vec![];
        let mut id = 0u32;
        let mut fallible = false;
        let ex = |re: &Re, env: &Env| -> Result<Re, FlatError> {
            re.expand(env).ok_or_else(|| {
                FlatError::Unbound(format!("{:?}", re))
            })
        };
        for t in &self.items {
            match t {
                Top::Let(n, re) => {
                    env.insert(n.clone(), re.clone());
                }
                Top::ErrorType => {}
                Top::Rule(r) => {
                    fallible |= r.kind.fallible();
                    unnamed.push(FlatRule {
                        id,
                        re: ex(&r.re, &env)?,
                        ctx: match &r.ctx {
                            None => None,
                            Some(c) => Some(ex(c, &env)?),
                        },
                        kind: r.kind.clone(),
                    });
                    id += 1;
                }
                Top::RuleSet { name, items } => {
                    let mut local = env.clone();
                    let mut rules = vec![];
                    for i in items {
                        match i {
                            Inner::Let(n, re) => {
                                local.insert(n.clone(), re.clone());
                            }
                            Inner::Rule(r) => {
                                fallible |= r.kind.fallible();
                                rules.push(FlatRule {
                                    id,
                                    re: ex(&r.re, &local)?,
                                    ctx: match &r.ctx {
                                        None => None,
                                        Some(c) => Some(ex(c, &local)?),
                                    },
                                    kind: r.kind.clone(),
                                });
                                id += 1;
                            }
                        }
                    }
                    sets.push(FlatSet {
                        name: name.clone(),
                        rules,
                    });
                }
            }
        }
        let named = !sets.is_empty();
        if !named {
            sets.push(FlatSet {
                name: "Init".to_string(),
                rules: unnamed,
            });
        }
        Ok(Flat {
            sets,
            named,
            fallible,
        })
    }

    // -----------------------------------------------------------------------------------------
    // Printing

    fn print_rule(&self, r: &Rule, id: u32, named: bool, out: &mut String, indent: &str, ov: Option<&(u32, String)>) {
        let mode = self.paren.to_paren();
        out.push_str(indent);
        match ov {
            Some((k, text)) if *k == id => out.push_str(text),
            _ => out.push_str(&print_re(&r.re, mode)),
        }
        if let Some(c) = &r.ctx {
            out.push_str(" > ");
            out.push_str(&print_re(c, mode));
        }
        let sc = if named { "script" } else { "script_nosw" };
        match &r.kind {
            Kind::Skip => out.push_str(",\n"),
            Kind::Simple => out.push_str(&format!(" = {},\n", id)),
            Kind::Ret => out.push_str(&format!(" => |lexer| rt::act!(lexer, {}, ret),\n", id)),
            Kind::Cont => out.push_str(&format!(" => |lexer| rt::act!(lexer, {}, cont),\n", id)),
            Kind::RCont => out.push_str(&format!(" => |lexer| rt::act!(lexer, {}, rcont),\n", id)),
            Kind::Sw(k) => {
                out.push_str(&format!(" => |lexer| rt::act!(lexer, {}, sw({})),\n", id, k))
            }
            Kind::SwRet(k) => out.push_str(&format!(
                " => |lexer| rt::act!(lexer, {}, swret({})),\n",
                id, k
            )),
            Kind::Script => {
                out.push_str(&format!(" => |lexer| rt::act!(lexer, {}, {}),\n", id, sc))
            }
            Kind::FOk => out.push_str(&format!(" =? |lexer| rt::actf!(lexer, {}, ok),\n", id)),
            Kind::FErr(n) => out.push_str(&format!(
                " =? |lexer| rt::actf!(lexer, {}, err({})),\n",
                id, n
            )),
            Kind::FScript => {
                out.push_str(&format!(" =? |lexer| rt::actf!(lexer, {}, {}),\n", id, sc))
            }
        }
    }

    /// The `lexer!` invocation alone, with the lexer called `name`.
    pub fn print_macro(&self, name: &str) -> String {
        self.print_macro_with(name, None)
    }

    /// Same, with the regex of rule number `ov.0` replaced by the literal text `ov.1`.
    pub fn print_macro_with(&self, name: &str, ov: Option<&(u32, String)>) -> String {
        let mode = self.paren.to_paren();
        let named = self.named();
        let mut o = String::new();
        o.push_str("lexgen::lexer! {\n");
        o.push_str("    #[derive(Clone)]\n");
        for a in &self.extra_attrs {
            o.push_str("    ");
            o.push_str(a);
            o.push('\n');
        }
        o.push_str(&format!(
            "    {}{}{}{} -> u32;\n",
            self.vis,
            if self.vis.is_empty() { "" } else { " " },
            name,
            if self.stateless { "" } else { "(rt::St)" }
        ));
        let mut id = 0u32;
        for t in &self.items {
            match t {
                Top::Let(n, re) => {
                    o.push_str(&format!("    let {} = {};\n", n, print_re(re, mode)));
                }
                Top::ErrorType => o.push_str("    type Error = rt::UErr;\n"),
                Top::Rule(r) => {
                    self.print_rule(r, id, named, &mut o, "    ", ov);
                    id += 1;
                }
                Top::RuleSet { name, items } => {
                    o.push_str(&format!("    rule {} {{\n", name));
                    for i in items {
                        match i {
                            Inner::Let(n, re) => {
                                o.push_str(&format!(
                                    "        let {} = {};\n",
                                    n,
                                    print_re(re, mode)
                                ));
                            }
                            Inner::Rule(r) => {
                                self.print_rule(r, id, named, &mut o, "        ", ov);
                                id += 1;
                            }
                        }
                    }
                    o.push_str("    }\n");
                }
            }
        }
        o.push_str("}\n");
        o
    }

    /// Module body: the macro invocation plus the glue that gives it a `run` function.
    pub fn print_module_body(&self, name: &str) -> String {
        let mut o = self.print_macro(name);
        let err = if self.has_error_type() {
            "rt::UErr"
        } else {
            "::std::convert::Infallible"
        };
        if self.stateless {
            o.push_str(&format!("rt::glue0!({}, {});\n", name, err));
        } else if self.named() {
            o.push_str(&format!(
                "rt::glue!({}, {}, {}Rule, [{}]);\n",
                name,
                err,
                name,
                self.set_names().join(", ")
            ));
        } else {
            o.push_str(&format!("rt::glue!({}, {});\n", name, err));
        }
        o
    }
}
