//! Trace comparison facets shared by the orchestrator and the fuzz targets.

use proto::{Item, Run};

#[derive(Clone, Copy, Debug)]
pub struct Facet {
    /// Compare line/column too (otherwise byte indices only).
    pub locs: bool,
    /// Compare the action log (rule ids, spans).
    pub log: bool,
    /// Compare `match_()` and `peek()` in the log.
    pub log_text_peek: bool,
    /// Stop after the first InvalidToken item.
    pub upto_first_invalid: bool,
    /// Compare only what follows the first InvalidToken item (C08).
    pub after_first_invalid: bool,
    /// Compare error locations (C07) — if false, errors are compared by kind only.
    pub err_locs: bool,
}

impl Facet {
    pub const TOKENS: Facet = Facet {
        locs: false,
        log: true,
        log_text_peek: false,
        upto_first_invalid: true,
        after_first_invalid: false,
        err_locs: false,
    };
}

fn cut_after_first_invalid(items: &[Item]) -> usize {
    items
        .iter()
        .position(|i| matches!(i, Item::Invalid { .. }))
        .map(|p| p + 1)
        .unwrap_or(items.len())
}

fn proj_loc(l: proto::Loc, full: bool) -> proto::Loc {
    if full {
        l
    } else {
        proto::Loc {
            line: 0,
            col: 0,
            byte: l.byte,
        }
    }
}

fn proj_item(i: &Item, f: &Facet) -> Item {
    match i {
        Item::Tok { start, tok, end } => Item::Tok {
            start: proj_loc(*start, f.locs),
            tok: *tok,
            end: proj_loc(*end, f.locs),
        },
        Item::Invalid { loc } => Item::Invalid {
            loc: if f.err_locs {
                proj_loc(*loc, f.locs)
            } else {
                proto::Loc::default()
            },
        },
        Item::Custom { nonce, rule, loc } => Item::Custom {
            nonce: *nonce,
            rule: *rule,
            loc: if f.err_locs {
                proj_loc(*loc, f.locs)
            } else {
                proto::Loc::default()
            },
        },
    }
}

pub fn fmt_item(i: &Item) -> String {
    match i {
        Item::Tok { start, tok, end } => format!(
            "T{}[{}..{} {}:{}-{}:{}]",
            tok, start.byte, end.byte, start.line, start.col, end.line, end.col
        ),
        Item::Invalid { loc } => format!("E@{}({}:{})", loc.byte, loc.line, loc.col),
        Item::Custom { nonce, rule, loc } => {
            format!("C{}r{}@{}({}:{})", nonce, rule, loc.byte, loc.line, loc.col)
        }
    }
}

pub fn fmt_run(r: &Run) -> String {
    let items: Vec<String> = r.items.iter().map(fmt_item).collect();
    let log: Vec<String> = r
        .log
        .iter()
        .map(|e| {
            format!(
                "#{}:r{}[{}..{}]{}{}",
                e.item_idx,
                e.rule,
                e.start.byte,
                e.end.byte,
                e.text.as_ref().map(|t| format!("{:?}", t)).unwrap_or_default(),
                e.peek.map(|c| format!("^{:?}", c)).unwrap_or_default()
            )
        })
        .collect();
    format!(
        "items=[{}] log=[{}]{}{}",
        items.join(", "),
        log.join(", "),
        if r.after_none > 0 { format!(" after_none={}", r.after_none) } else { String::new() },
        if r.runaway { " RUNAWAY" } else { "" }
    )
}

/// `Err(prefix mismatch)` is reported separately so that C08 can skip cases whose prefix differs.
pub fn compare_runs(exp: &Run, got: &Run, f: &Facet) -> Result<(), String> {
    let ce = cut_after_first_invalid(&exp.items);
    let cg = cut_after_first_invalid(&got.items);
    let (ei, gi, lo_e, hi_e, lo_g, hi_g): (&[Item], &[Item], u32, u32, u32, u32) = if f.upto_first_invalid {
        (&exp.items[..ce], &got.items[..cg], 0, ce as u32, 0, cg as u32)
    } else if f.after_first_invalid {
        (&exp.items[ce..], &got.items[cg..], ce as u32, u32::MAX, cg as u32, u32::MAX)
    } else {
        (&exp.items[..], &got.items[..], 0, u32::MAX, 0, u32::MAX)
    };
    for k in 0..ei.len().max(gi.len()) {
        let a = ei.get(k).map(|i| proj_item(i, f));
        let b = gi.get(k).map(|i| proj_item(i, f));
        if a != b {
            return Err(format!(
                "item {} differs: expected {} got {}",
                k,
                ei.get(k).map(fmt_item).unwrap_or_else(|| "<end of stream>".into()),
                gi.get(k).map(fmt_item).unwrap_or_else(|| "<end of stream>".into())
            ));
        }
    }
    if f.log {
        let el: Vec<_> = exp.log.iter().filter(|e| e.item_idx >= lo_e && e.item_idx < hi_e).collect();
        let gl: Vec<_> = got.log.iter().filter(|e| e.item_idx >= lo_g && e.item_idx < hi_g).collect();
        for k in 0..el.len().max(gl.len()) {
            let same = match (el.get(k), gl.get(k)) {
                (Some(a), Some(b)) => {
                    a.rule == b.rule
                        && a.item_idx - lo_e == b.item_idx - lo_g
                        && proj_loc(a.start, f.locs) == proj_loc(b.start, f.locs)
                        && proj_loc(a.end, f.locs) == proj_loc(b.end, f.locs)
                        && (!f.log_text_peek || (a.text == b.text && a.peek == b.peek))
                }
                _ => false,
            };
            if !same {
                return Err(format!(
                    "action log entry {} differs: expected {:?} got {:?}",
                    k,
                    el.get(k),
                    gl.get(k)
                ));
            }
        }
    }
    Ok(())
}

/// Do both runs agree up to and including the first InvalidToken (bytes only)?
pub fn prefix_agrees(exp: &Run, got: &Run) -> bool {
    let f = Facet {
        locs: false,
        log: false,
        log_text_peek: false,
        upto_first_invalid: true,
        after_first_invalid: false,
        err_locs: false,
    };
    compare_runs(exp, got, &f).is_ok()
}

