//! Brzozowski derivatives with smart constructors over a partition of the scalar values into
//! cells, and a lazily built automaton over vectors of derivatives (one component per rule).
//! End of input is a virtual symbol `EOI` (the last symbol index).

use crate::cls::{Cls, MAX};
use crate::re::Re;
use std::collections::HashMap;

pub type Id = u32;
pub const EMPTY: Id = 0;
pub const EPS: Id = 1;

#[derive(Clone, Debug, PartialEq, Eq, Hash)]
enum N {
    Empty,
    Eps,
    /// Sorted list of cells.
    Class(Vec<u32>),
    Eoi,
    Cat(Id, Id),
    Alt(Vec<Id>),
    Star(Id),
}

/// Partition of 0..=0x10FFFF into cells such that every class used by a spec is a union of cells.
#[derive(Clone, Debug)]
pub struct Alphabet {
    /// Start points of the cells, sorted; cell i = [starts[i], starts[i+1]-1].
    starts: Vec<u32>,
}

impl Alphabet {
    pub fn new(classes: &[Cls]) -> Alphabet {
        let mut starts = vec![0u32];
        for c in classes {
            for &(a, b) in &c.0 {
                starts.push(a);
                if b < MAX {
                    starts.push(b + 1);
                }
            }
        }
        starts.sort();
        starts.dedup();
        Alphabet { starts }
    }

    pub fn n_cells(&self) -> usize {
        self.starts.len()
    }

    pub fn eoi(&self) -> u32 {
        self.starts.len() as u32
    }

    pub fn cell_of(&self, c: char) -> u32 {
        (self.starts.partition_point(|&s| s <= c as u32) - 1) as u32
    }

    pub fn cell_range(&self, i: u32) -> (u32, u32) {
        let a = self.starts[i as usize];
        let b = if (i as usize) + 1 < self.starts.len() {
            self.starts[i as usize + 1] - 1
        } else {
            MAX
        };
        (a, b)
    }

    pub fn cells_of(&self, c: &Cls) -> Vec<u32> {
        let mut v = vec![];
        for &(a, b) in &c.0 {
            let mut i = self.starts.partition_point(|&s| s <= a) - 1;
            debug_assert_eq!(self.starts[i], a, "class boundary is not a cell boundary");
            while i < self.starts.len() && self.starts[i] <= b {
                v.push(i as u32);
                i += 1;
            }
        }
        v
    }

    /// A scalar value inside the cell, if it contains one (a cell can consist of surrogates only).
    pub fn representative(&self, i: u32) -> Option<char> {
        let (a, b) = self.cell_range(i);
        let mut x = a;
        while x <= b {
            if let Some(c) = char::from_u32(x) {
                return Some(c);
            }
            x = 0xE000;
        }
        None
    }
}

pub struct Arena {
    nodes: Vec<N>,
    index: HashMap<N, Id>,
    nullable: Vec<bool>,
    can_step: Vec<bool>,
    dcache: HashMap<(Id, u32), Id>,
    pub alphabet: Alphabet,
}

impl Arena {
    pub fn new(alphabet: Alphabet) -> Arena {
        let mut a = Arena {
            nodes: vec![],
            index: HashMap::new(),
            nullable: vec![],
            can_step: vec![],
            dcache: HashMap::new(),
            alphabet,
        };
        assert_eq!(a.intern(N::Empty), EMPTY);
        assert_eq!(a.intern(N::Eps), EPS);
        a
    }

    fn intern(&mut self, n: N) -> Id {
        if let Some(&id) = self.index.get(&n) {
            return id;
        }
        let id = self.nodes.len() as Id;
        let (nl, cs) = match &n {
            N::Empty => (false, false),
            N::Eps => (true, false),
            N::Class(_) => (false, true),
            N::Eoi => (false, true),
            N::Cat(a, b) => (
                self.nullable[*a as usize] && self.nullable[*b as usize],
                self.can_step[*a as usize]
                    || (self.nullable[*a as usize] && self.can_step[*b as usize]),
            ),
            N::Alt(v) => (
                v.iter().any(|x| self.nullable[*x as usize]),
                v.iter().any(|x| self.can_step[*x as usize]),
            ),
            N::Star(a) => (true, self.can_step[*a as usize]),
        };
        self.nodes.push(n.clone());
        self.index.insert(n, id);
        self.nullable.push(nl);
        self.can_step.push(cs);
        id
    }

    pub fn nullable(&self, id: Id) -> bool {
        self.nullable[id as usize]
    }

    /// Does some symbol have a non-empty derivative? (Exact because smart constructors remove
    /// every empty sub-language and `$` only occurs in tail positions.)
    pub fn can_step(&self, id: Id) -> bool {
        self.can_step[id as usize]
    }

    pub fn class(&mut self, cells: Vec<u32>) -> Id {
        if cells.is_empty() {
            EMPTY
        } else {
            self.intern(N::Class(cells))
        }
    }

    pub fn eoi(&mut self) -> Id {
        self.intern(N::Eoi)
    }

    pub fn cat(&mut self, a: Id, b: Id) -> Id {
        if a == EMPTY || b == EMPTY {
            return EMPTY;
        }
        if a == EPS {
            return b;
        }
        if b == EPS {
            return a;
        }
        // right-nest
        if let N::Cat(x, y) = self.nodes[a as usize].clone() {
            let yb = self.cat(y, b);
            return self.cat(x, yb);
        }
        self.intern(N::Cat(a, b))
    }

    pub fn alt(&mut self, parts: &[Id]) -> Id {
        let mut v: Vec<Id> = vec![];
        for &p in parts {
            match &self.nodes[p as usize] {
                N::Empty => {}
                N::Alt(w) => v.extend_from_slice(w),
                _ => v.push(p),
            }
        }
        v.sort();
        v.dedup();
        match v.len() {
            0 => EMPTY,
            1 => v[0],
            _ => self.intern(N::Alt(v)),
        }
    }

    pub fn star(&mut self, a: Id) -> Id {
        if a == EMPTY || a == EPS {
            return EPS;
        }
        if let N::Star(_) = self.nodes[a as usize] {
            return a;
        }
        self.intern(N::Star(a))
    }

    /// Translates a variable-free regex. Classes must be unions of cells of the alphabet.
    pub fn build(&mut self, re: &Re) -> Id {
        match re {
            Re::Char(_) | Re::Set(_) | Re::Any | Re::Builtin(_) | Re::Diff(..) => {
                let cls = re.class().expect("class expression");
                let cells = self.alphabet.cells_of(&cls);
                self.class(cells)
            }
            Re::Str(s) => {
                let ids: Vec<Id> = s
                    .chars()
                    .map(|c| {
                        let cells = self.alphabet.cells_of(&Cls::single(c));
                        self.class(cells)
                    })
                    .collect();
                let mut acc = EPS;
                for id in ids.into_iter().rev() {
                    acc = self.cat(id, acc);
                }
                acc
            }
            Re::Eoi => self.eoi(),
            Re::Star(a) => {
                let x = self.build(a);
                self.star(x)
            }
            Re::Plus(a) => {
                let x = self.build(a);
                let s = self.star(x);
                self.cat(x, s)
            }
            Re::Opt(a) => {
                let x = self.build(a);
                self.alt(&[EPS, x])
            }
            Re::Cat(a, b) => {
                let x = self.build(a);
                let y = self.build(b);
                self.cat(x, y)
            }
            Re::Alt(a, b) => {
                // An alternation of classes is still a regex alternation here; no special case.
                let x = self.build(a);
                let y = self.build(b);
                self.alt(&[x, y])
            }
            Re::Var(v) => panic!("unexpanded variable {}", v),
        }
    }

    pub fn deriv(&mut self, id: Id, sym: u32) -> Id {
        if id == EMPTY || id == EPS {
            return EMPTY;
        }
        if let Some(&d) = self.dcache.get(&(id, sym)) {
            return d;
        }
        let n = self.nodes[id as usize].clone();
        let eoi = self.alphabet.eoi();
        let d = match n {
            N::Empty | N::Eps => EMPTY,
            N::Class(cells) => {
                if sym != eoi && cells.binary_search(&sym).is_ok() {
                    EPS
                } else {
                    EMPTY
                }
            }
            N::Eoi => {
                if sym == eoi {
                    EPS
                } else {
                    EMPTY
                }
            }
            N::Cat(a, b) => {
                let da = self.deriv(a, sym);
                let left = self.cat(da, b);
                if self.nullable(a) {
                    let db = self.deriv(b, sym);
                    self.alt(&[left, db])
                } else {
                    left
                }
            }
            N::Alt(v) => {
                let ds: Vec<Id> = v.iter().map(|&x| self.deriv(x, sym)).collect();
                self.alt(&ds)
            }
            N::Star(a) => {
                let da = self.deriv(a, sym);
                self.cat(da, id)
            }
        };
        self.dcache.insert((id, sym), d);
        d
    }

    pub fn n_nodes(&self) -> usize {
        self.nodes.len()
    }
}

/// Lazily built product automaton of a rule set: a state is the vector of the rules' derivatives.
pub struct LazyDfa {
    states: Vec<DState>,
    index: HashMap<Vec<Id>, u32>,
}

pub struct DState {
    pub comps: Vec<Id>,
    /// Indices (in rule order) of the rules whose component is nullable.
    pub accepting: Vec<u32>,
    pub dead: bool,
    pub can_step: bool,
    trans: HashMap<u32, u32>,
}

impl LazyDfa {
    pub fn new(arena: &Arena, roots: Vec<Id>) -> LazyDfa {
        let mut d = LazyDfa {
            states: vec![],
            index: HashMap::new(),
        };
        d.state_of(arena, roots);
        d
    }

    fn state_of(&mut self, arena: &Arena, comps: Vec<Id>) -> u32 {
        if let Some(&s) = self.index.get(&comps) {
            return s;
        }
        let id = self.states.len() as u32;
        let accepting = comps
            .iter()
            .enumerate()
            .filter(|(_, &c)| arena.nullable(c))
            .map(|(i, _)| i as u32)
            .collect();
        let dead = comps.iter().all(|&c| c == EMPTY);
        let can_step = comps.iter().any(|&c| arena.can_step(c));
        self.index.insert(comps.clone(), id);
        self.states.push(DState {
            comps,
            accepting,
            dead,
            can_step,
            trans: HashMap::new(),
        });
        id
    }

    pub fn state(&self, s: u32) -> &DState {
        &self.states[s as usize]
    }

    pub fn step(&mut self, arena: &mut Arena, s: u32, sym: u32) -> u32 {
        if let Some(&t) = self.states[s as usize].trans.get(&sym) {
            return t;
        }
        let comps: Vec<Id> = self.states[s as usize]
            .comps
            .clone()
            .iter()
            .map(|&c| arena.deriv(c, sym))
            .collect();
        let t = self.state_of(arena, comps);
        self.states[s as usize].trans.insert(sym, t);
        t
    }

    pub fn n_states(&self) -> usize {
        self.states.len()
    }
}
