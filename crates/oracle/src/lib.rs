pub mod cls;
pub mod deriv;
pub mod ends;
pub mod gen;
pub mod model;
pub mod re;
pub mod spec;
pub mod syntax;
