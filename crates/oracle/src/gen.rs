//! proptest strategies for regex trees, lexer definitions, scripts and inputs.
//! Well-formedness is by construction (never by rejection): no nullable rule, no empty class or
//! string, `$` only in tail position and never under `*`/`+`.

use crate::cls::Cls;
use crate::re::{alt, cat, diff, opt, plus, star, Re, SetItem};
use crate::spec::{Inner, Kind, ParenStyle, Rule, Spec, Top};
use proptest::collection::vec;
use proptest::prelude::*;
use proptest::sample::select;
use proto::{Case, Ctor, Dec};

/// Weighted union that drops zero-weight arms (proptest rejects them / may shrink into them).
pub fn wunion<T: std::fmt::Debug + 'static>(arms: Vec<(u32, BoxedStrategy<T>)>) -> BoxedStrategy<T> {
    let arms: Vec<(u32, BoxedStrategy<T>)> = arms.into_iter().filter(|(w, _)| *w > 0).collect();
    assert!(!arms.is_empty());
    proptest::strategy::Union::new_weighted(arms).boxed()
}

#[derive(Clone, Debug)]
pub struct ReParams {
    /// Characters used in literals, strings and sets.
    pub chars: Vec<char>,
    pub w_char: u32,
    pub w_str: u32,
    pub w_set: u32,
    pub w_any: u32,
    pub w_diff: u32,
    pub w_builtin: u32,
    pub builtins: Vec<&'static str>,
    pub depth: u32,
    pub size: u32,
    /// Allow a character to be repeated inside a bracket set (`['a' 'a']`).
    pub dup_in_set: bool,
    /// Maximum number of items in a bracket set.
    pub max_set_items: usize,
    /// Ready-made atoms (typical classes of real lexers) and their weight.
    pub extra_atoms: Vec<Re>,
    pub w_extra: u32,
}

impl ReParams {
    pub fn basic(chars: &[char]) -> ReParams {
        ReParams {
            chars: chars.to_vec(),
            w_char: 10,
            w_str: 3,
            w_set: 3,
            w_any: 1,
            w_diff: 0,
            w_builtin: 0,
            builtins: vec!["ascii_digit", "ascii_lowercase", "ascii_uppercase", "ascii_hexdigit"],
            depth: 4,
            size: 12,
            dup_in_set: true,
            max_set_items: 3,
            extra_atoms: vec![],
            w_extra: 0,
        }
    }
}

/// Classes as real lexers write them: identifier starts / continuations, hex digits, Latin-1
/// letters, printable punctuation — with the exact pieces 0-9, A-F, A-Z, a-f, a-z next to others.
pub fn typical_classes() -> Vec<Re> {
    let r = |a: char, b: char| SetItem::R(a, b);
    vec![
        Re::Set(vec![r('a', 'z'), r('A', 'Z')]),
        Re::Set(vec![r('A', 'Z'), r('a', 'z'), SetItem::C('_')]),
        Re::Set(vec![r('a', 'z'), r('A', 'Z'), r('0', '9'), SetItem::C('_')]),
        Re::Set(vec![r('0', '9'), r('a', 'f'), r('A', 'F')]),
        Re::Set(vec![r('A', 'Z'), r('a', 'z'), r('\u{c0}', '\u{ff}')]),
        Re::Set(vec![r('A', 'Z'), r('a', 'z'), r('{', '~')]),
        Re::Set(vec![r('0', '9'), r('A', 'Z'), r('a', 'z'), r('\u{80}', '\u{10ffff}')]),
        Re::Set(vec![r('0', '9')]),
        Re::Set(vec![r(' ', '~')]),
        Re::Set(vec![r('!', '/'), r(':', '@'), r('[', '`'), r('{', '~')]),
        Re::Set(vec![SetItem::C(' '), SetItem::C('\t'), SetItem::C('\n')]),
    ]
}

fn set_items(p: &ReParams) -> BoxedStrategy<Vec<SetItem>> {
    let chars = p.chars.clone();
    let chars2 = p.chars.clone();
    let dup = p.dup_in_set;
    let item = prop_oneof![
        3 => select(chars.clone()).prop_map(SetItem::C),
        2 => (select(chars.clone()), select(chars2)).prop_map(|(a, b)| {
            if a <= b { SetItem::R(a, b) } else { SetItem::R(b, a) }
        }),
    ];
    vec(item, 1..=p.max_set_items.max(1))
        .prop_map(move |mut v| {
            if !dup {
                let mut seen = vec![];
                v.retain(|i| match i {
                    SetItem::C(c) => {
                        if seen.contains(c) {
                            false
                        } else {
                            seen.push(*c);
                            true
                        }
                    }
                    _ => true,
                });
            }
            v
        })
        .boxed()
}

/// Class expressions (operands of `#` and of class-level `|`).
pub fn class_strategy(p: &ReParams) -> BoxedStrategy<Re> {
    let chars = p.chars.clone();
    let builtins = p.builtins.clone();
    let leaf = wunion(vec![
        (3, select(chars).prop_map(Re::Char).boxed()),
        (4, set_items(p).prop_map(Re::Set).boxed()),
        (1, Just(Re::Any).boxed()),
        (
            if builtins.is_empty() { 0 } else { 1 },
            select(if builtins.is_empty() { vec!["ascii"] } else { builtins })
                .prop_map(|n| Re::Builtin(n.to_string()))
                .boxed(),
        ),
    ]);
    leaf.prop_recursive(3, 8, 2, |inner| {
        prop_oneof![
            2 => (inner.clone(), inner.clone()).prop_map(|(a, b)| alt(a, b)),
            3 => (inner.clone(), inner.clone()).prop_map(|(a, b)| mk_diff(a, b)),
        ]
    })
    .boxed()
}

/// `a # b`, with `b` wrapped so that it is an atom of the grammar when printed, and falling back
/// to `a` when the difference would be empty.
pub fn mk_diff(a: Re, b: Re) -> Re {
    let d = diff(a.clone(), b);
    match d.class() {
        Some(c) if !c.is_empty() => d,
        _ => a,
    }
}

pub fn re_strategy(p: &ReParams) -> BoxedStrategy<Re> {
    let chars = p.chars.clone();
    let chars2 = p.chars.clone();
    let builtins = if p.builtins.is_empty() {
        vec!["ascii_digit"]
    } else {
        p.builtins.clone()
    };
    let leaf = wunion(vec![
        (p.w_char, select(chars).prop_map(Re::Char).boxed()),
        (
            p.w_str,
            vec(select(chars2), 2..=3)
                .prop_map(|v| Re::Str(v.into_iter().collect()))
                .boxed(),
        ),
        (p.w_set, set_items(p).prop_map(Re::Set).boxed()),
        (p.w_any, Just(Re::Any).boxed()),
        (p.w_diff, class_strategy(p)),
        (
            p.w_builtin,
            select(builtins).prop_map(|n| Re::Builtin(n.to_string())).boxed(),
        ),
        (
            if p.extra_atoms.is_empty() { 0 } else { p.w_extra },
            select(if p.extra_atoms.is_empty() { vec![Re::Any] } else { p.extra_atoms.clone() }).boxed(),
        ),
    ]);
    leaf.prop_recursive(p.depth, p.size, 2, |inner| {
        prop_oneof![
            2 => inner.clone().prop_map(star),
            2 => inner.clone().prop_map(plus),
            1 => inner.clone().prop_map(opt),
            4 => (inner.clone(), inner.clone()).prop_map(|(a, b)| cat(a, b)),
            3 => (inner.clone(), inner.clone()).prop_map(|(a, b)| alt(a, b)),
        ]
    })
    .boxed()
}

/// Makes a regex non-nullable by prefixing an atom when needed.
pub fn fix_nullable(re: Re, atom: char) -> Re {
    if re.nullable() {
        cat(Re::Char(atom), re)
    } else {
        re
    }
}

/// How `$` is attached to the tail of a rule.
#[derive(Clone, Debug)]
pub enum EoiForm {
    None,
    /// `re $`
    Tail,
    /// `re $?`
    OptTail,
    /// `re (x | $)`
    AltTail(char),
    /// `$`
    Bare,
    /// `a | b $` when the regex is an alternation (`$` at the tail of the last alternative only),
    /// otherwise `re $`
    LastAlt,
}

pub fn apply_eoi(re: Re, form: &EoiForm) -> Re {
    match form {
        EoiForm::None => re,
        EoiForm::Tail => cat(re, Re::Eoi),
        EoiForm::OptTail => cat(re, opt(Re::Eoi)),
        EoiForm::AltTail(c) => cat(re, alt(Re::Char(*c), Re::Eoi)),
        EoiForm::Bare => Re::Eoi,
        EoiForm::LastAlt => match re {
            Re::Alt(a, b) => alt(*a, cat(*b, Re::Eoi)),
            other => cat(other, Re::Eoi),
        },
    }
}

fn eoi_form(chars: Vec<char>, pct: u32) -> BoxedStrategy<EoiForm> {
    if pct == 0 {
        return Just(EoiForm::None).boxed();
    }
    wunion(vec![
        (100u32.saturating_sub(pct), Just(EoiForm::None).boxed()),
        (pct * 4 / 10 + 1, Just(EoiForm::Tail).boxed()),
        (pct * 2 / 10 + 1, Just(EoiForm::OptTail).boxed()),
        (pct * 2 / 10 + 1, select(chars).prop_map(EoiForm::AltTail).boxed()),
        (pct * 2 / 10 + 1, Just(EoiForm::Bare).boxed()),
        (pct * 2 / 10 + 1, Just(EoiForm::LastAlt).boxed()),
    ])
}

/// Right contexts: any regex, nullable ones included, `$` in tail position.
pub fn ctx_strategy(p: &ReParams, eoi_pct: u32) -> BoxedStrategy<Re> {
    let mut q = p.clone();
    q.depth = 3;
    q.size = 6;
    (re_strategy(&q), eoi_form(p.chars.clone(), eoi_pct.max(15)))
        .prop_map(|(re, form)| apply_eoi(re, &form))
        .boxed()
}

#[derive(Clone, Debug)]
pub struct KindMix {
    pub skip: u32,
    pub simple: u32,
    pub ret: u32,
    pub cont: u32,
    pub rcont: u32,
    pub sw: u32,
    pub swret: u32,
    pub script: u32,
    pub fok: u32,
    pub ferr: u32,
    pub fscript: u32,
}

impl KindMix {
    pub fn tokens_only() -> KindMix {
        KindMix {
            skip: 0,
            simple: 5,
            ret: 5,
            cont: 0,
            rcont: 0,
            sw: 0,
            swret: 0,
            script: 0,
            fok: 0,
            ferr: 0,
            fscript: 0,
        }
    }
    pub fn mixed() -> KindMix {
        KindMix {
            skip: 2,
            simple: 3,
            ret: 3,
            cont: 2,
            rcont: 1,
            sw: 2,
            swret: 2,
            script: 5,
            fok: 1,
            ferr: 1,
            fscript: 3,
        }
    }
}

fn kind_strategy(m: &KindMix, n_sets: u32, named: bool) -> BoxedStrategy<Kind> {
    let sw = if named { m.sw } else { 0 };
    let swret = if named { m.swret } else { 0 };
    wunion(vec![
        (m.skip, Just(Kind::Skip).boxed()),
        (m.simple, Just(Kind::Simple).boxed()),
        (m.ret, Just(Kind::Ret).boxed()),
        (m.cont, Just(Kind::Cont).boxed()),
        (m.rcont, Just(Kind::RCont).boxed()),
        (sw, (0..n_sets.max(1)).prop_map(Kind::Sw).boxed()),
        (swret, (0..n_sets.max(1)).prop_map(Kind::SwRet).boxed()),
        (m.script, Just(Kind::Script).boxed()),
        (m.fok, Just(Kind::FOk).boxed()),
        (m.ferr, (0u32..1000).prop_map(Kind::FErr).boxed()),
        (m.fscript, Just(Kind::FScript).boxed()),
    ])
}

#[derive(Clone, Debug)]
pub struct Profile {
    pub name: &'static str,
    pub re: ReParams,
    pub sets: (usize, usize),
    /// Rules per set (the first set gets at least one rule).
    pub rules: (usize, usize),
    pub ctx_pct: u32,
    pub eoi_pct: u32,
    pub kinds: KindMix,
    /// Percentage of single-set specs printed without `rule Init { }`.
    pub unnamed_pct: u32,
    pub allow_empty_sets: bool,
}

fn rule_strategy(p: &Profile, n_sets: u32, named: bool) -> BoxedStrategy<Rule> {
    let atom = p.re.chars[0];
    let ctx = if p.ctx_pct == 0 {
        Just(None).boxed()
    } else {
        wunion(vec![
            (100u32.saturating_sub(p.ctx_pct), Just(None).boxed()),
            (p.ctx_pct, ctx_strategy(&p.re, p.eoi_pct).prop_map(Some).boxed()),
        ])
    };
    (
        re_strategy(&p.re),
        eoi_form(p.re.chars.clone(), p.eoi_pct),
        ctx,
        kind_strategy(&p.kinds, n_sets, named),
    )
        .prop_map(move |(re, form, ctx, kind)| Rule {
            re: apply_eoi(fix_nullable(re, atom), &form),
            ctx,
            kind,
        })
        .boxed()
}

const SET_NAMES: [&str; 8] = ["Init", "A", "B", "C", "D", "E", "F", "G"];

pub fn spec_strategy(p: &Profile) -> BoxedStrategy<Spec> {
    let p = p.clone();
    (p.sets.0..=p.sets.1, 0u32..100)
        .prop_flat_map(move |(n_sets, coin)| {
            let named = n_sets > 1 || coin >= p.unnamed_pct;
            let mut set_strats = vec![];
            for i in 0..n_sets {
                let lo = if i == 0 || !p.allow_empty_sets {
                    p.rules.0.max(1)
                } else {
                    0
                };
                set_strats.push(vec(
                    rule_strategy(&p, n_sets as u32, named),
                    lo..=p.rules.1.max(lo),
                ));
            }
            set_strats.prop_map(move |sets| {
                let mut items = vec![];
                let fallible = sets.iter().flatten().any(|r| r.kind.fallible());
                if fallible {
                    items.push(Top::ErrorType);
                }
                if named {
                    for (i, rules) in sets.into_iter().enumerate() {
                        items.push(Top::RuleSet {
                            name: SET_NAMES[i].to_string(),
                            items: rules.into_iter().map(Inner::Rule).collect(),
                        });
                    }
                } else {
                    for r in sets.into_iter().flatten() {
                        items.push(Top::Rule(r));
                    }
                }
                Spec {
                    extra_attrs: vec![],
                    vis: "pub".to_string(),
                    items,
                    paren: ParenStyle::Full,
        stateless: false,
                }
            })
        })
        .boxed()
}

// ---------------------------------------------------------------------------------------------
// Scripts and cases

pub fn dec_strategy(n_sets: u32, fallible: bool) -> BoxedStrategy<Dec> {
    let k = 0..n_sets.max(1);
    let multi = n_sets > 1;
    wunion(vec![
        (6, Just(Dec::Ret).boxed()),
        (4, Just(Dec::Cont).boxed()),
        (2, Just(Dec::ResetCont).boxed()),
        (if multi { 3 } else { 0 }, k.clone().prop_map(Dec::Switch).boxed()),
        (if multi { 3 } else { 0 }, k.clone().prop_map(Dec::SwitchRet).boxed()),
        (1, Just(Dec::ResetRet).boxed()),
        (if multi { 1 } else { 0 }, k.prop_map(Dec::ResetSwitch).boxed()),
        (if fallible { 3 } else { 0 }, (1u32..100000).prop_map(Dec::Err).boxed()),
        // switch to a rule set and fail in the same action
        (
            if fallible && multi { 2 } else { 0 },
            (0..n_sets.max(1), 1u32..100000).prop_map(|(k, n)| Dec::Err(((k + 1) << 24) | n)).boxed(),
        ),
    ])
}

pub fn script_strategy(n_sets: u32, fallible: bool, max_len: usize) -> BoxedStrategy<Vec<Dec>> {
    vec(dec_strategy(n_sets, fallible), 0..=max_len).boxed()
}

pub fn ctor_strategy() -> BoxedStrategy<Ctor> {
    select(Ctor::ALL.to_vec()).boxed()
}

// ---------------------------------------------------------------------------------------------
// Tape-driven sampling of lexemes and inputs (the tape is a proptest value, so it shrinks)

pub struct Tape<'a> {
    data: &'a [u32],
    pos: usize,
}

impl<'a> Tape<'a> {
    pub fn new(data: &'a [u32]) -> Tape<'a> {
        Tape { data, pos: 0 }
    }
    /// Next choice in `0..bound` (0 when the tape is exhausted, so shorter tapes give simpler
    /// values).
    pub fn next(&mut self, bound: u32) -> u32 {
        let x = self.data.get(self.pos).copied().unwrap_or(0);
        self.pos += 1;
        if bound == 0 {
            0
        } else {
            // monotone mapping so that shrinking the tape entry shrinks the choice
            ((x as u64 * bound as u64) >> 32) as u32
        }
    }
    pub fn exhausted(&self) -> bool {
        self.pos >= self.data.len()
    }
}

fn pick_from_class(c: &Cls, t: &mut Tape) -> Option<char> {
    if c.is_empty() {
        return None;
    }
    let r = t.next(c.0.len() as u32) as usize;
    let (a, b) = c.0[r];
    let x = match t.next(3) {
        0 => a,
        1 => b,
        _ => a + t.next(b - a + 1),
    };
    char::from_u32(x).or_else(|| char::from_u32(a))
}

/// A string in L(re) (`$` contributes nothing), chosen by the tape.
pub fn sample_re(re: &Re, t: &mut Tape, out: &mut String, depth: u32) {
    match re {
        Re::Char(c) => out.push(*c),
        Re::Str(s) => out.push_str(s),
        Re::Set(_) | Re::Any | Re::Builtin(_) | Re::Diff(..) => {
            if let Some(c) = re.class().and_then(|c| pick_from_class(&c, t)) {
                out.push(c)
            }
        }
        Re::Eoi => {}
        Re::Star(a) => {
            let k = if depth > 6 { 0 } else { t.next(4) };
            for _ in 0..k {
                sample_re(a, t, out, depth + 1);
            }
        }
        Re::Plus(a) => {
            let k = if depth > 6 { 1 } else { 1 + t.next(3) };
            for _ in 0..k {
                sample_re(a, t, out, depth + 1);
            }
        }
        Re::Opt(a) => {
            if depth <= 6 && t.next(2) == 1 {
                sample_re(a, t, out, depth + 1);
            }
        }
        Re::Cat(a, b) => {
            sample_re(a, t, out, depth + 1);
            sample_re(b, t, out, depth + 1);
        }
        Re::Alt(a, b) => {
            // class-level alternation samples like any other alternation
            if t.next(2) == 0 {
                sample_re(a, t, out, depth + 1)
            } else {
                sample_re(b, t, out, depth + 1)
            }
        }
        Re::Var(_) => {}
    }
}

/// Input made of lexemes sampled from the given regexes, then mutated (truncate / replace /
/// insert / append a character from `extra`).
pub fn guided_input(res: &[&Re], extra: &[char], tape: &[u32], max_lexemes: u32) -> String {
    let mut t = Tape::new(tape);
    let mut s = String::new();
    if res.is_empty() {
        return s;
    }
    let k = 1 + t.next(max_lexemes);
    for _ in 0..k {
        let r = res[t.next(res.len() as u32) as usize];
        sample_re(r, &mut t, &mut s, 0);
        if t.exhausted() {
            break;
        }
    }
    let n_mut = t.next(3);
    for _ in 0..n_mut {
        let mut cs: Vec<char> = s.chars().collect();
        let x = if extra.is_empty() {
            'x'
        } else {
            extra[t.next(extra.len() as u32) as usize]
        };
        match t.next(4) {
            0 => {
                let at = t.next(cs.len() as u32 + 1) as usize;
                cs.truncate(at);
            }
            1 => {
                if !cs.is_empty() {
                    let at = t.next(cs.len() as u32) as usize;
                    cs[at] = x;
                }
            }
            2 => {
                let at = t.next(cs.len() as u32 + 1) as usize;
                cs.insert(at, x);
            }
            _ => cs.push(x),
        }
        s = cs.into_iter().collect();
    }
    s
}

pub fn tape_strategy(max: usize) -> BoxedStrategy<Vec<u32>> {
    vec(any::<u32>(), 0..=max).boxed()
}

/// Unstructured inputs: arbitrary scalar values, one repeated character, short and long.
pub fn wild_input(chars: Vec<char>) -> BoxedStrategy<String> {
    let c2 = chars.clone();
    prop_oneof![
        3 => vec(any::<char>(), 0..24).prop_map(|v| v.into_iter().collect::<String>()),
        3 => vec(select(chars.clone()), 0..40).prop_map(|v| v.into_iter().collect::<String>()),
        1 => (select(c2), 0usize..64).prop_map(|(c, n)| std::iter::repeat(c).take(n).collect::<String>()),
        1 => (any::<char>(), 0usize..64).prop_map(|(c, n)| std::iter::repeat(c).take(n).collect::<String>()),
        1 => Just(String::new()),
    ]
    .boxed()
}

pub fn simple_case(input: String, script: Vec<Dec>) -> Case {
    Case {
        ctor: Ctor::NewWithState,
        input,
        script,
        clone_at: None,
        sched: 0,
        extra_nexts: 2,
    }
}

/// All strings over `alphabet` up to length `max_len`, in length-lexicographic order.
pub fn all_strings(alphabet: &[char], max_len: usize) -> Vec<String> {
    let mut out = vec![String::new()];
    let mut frontier = vec![String::new()];
    for _ in 0..max_len {
        let mut next = Vec::with_capacity(frontier.len() * alphabet.len());
        for s in &frontier {
            for &c in alphabet {
                let mut t = s.clone();
                t.push(c);
                next.push(t);
            }
        }
        out.extend(next.iter().cloned());
        frontier = next;
    }
    out
}

/// Largest L such that the number of strings of length <= L over k letters stays <= cap.
pub fn max_len_for(k: usize, cap: usize) -> usize {
    let mut total = 1usize;
    let mut pow = 1usize;
    let mut l = 0;
    loop {
        pow = pow.saturating_mul(k.max(1));
        if total.saturating_add(pow) > cap || l >= 12 {
            return l;
        }
        total += pow;
        l += 1;
        if k <= 1 && l >= 8 {
            return l;
        }
    }
}

// ---------------------------------------------------------------------------------------------
// Post-processing of generated specs

/// Copies the regex of an earlier rule of the same set into a later one (so that several rules
/// match the same lexemes with different contexts / actions), driven by the tape.
pub fn duplicate_rules(spec: &mut Spec, tape: &[u32]) {
    let mut t = Tape::new(tape);
    for item in spec.items.iter_mut() {
        if let Top::RuleSet { items, .. } = item {
            let idxs: Vec<usize> = items
                .iter()
                .enumerate()
                .filter(|(_, i)| matches!(i, Inner::Rule(_)))
                .map(|(k, _)| k)
                .collect();
            if idxs.len() >= 2 && t.next(2) == 1 {
                let a = idxs[t.next(idxs.len() as u32 - 1) as usize];
                let later: Vec<usize> = idxs.iter().copied().filter(|k| *k > a).collect();
                let b = later[t.next(later.len() as u32) as usize];
                let re = match &items[a] {
                    Inner::Rule(r) => r.re.clone(),
                    _ => unreachable!(),
                };
                if let Inner::Rule(r) = &mut items[b] {
                    r.re = re;
                }
            }
        }
    }
    // unnamed specs: top-level rules
    let idxs: Vec<usize> = spec
        .items
        .iter()
        .enumerate()
        .filter(|(_, i)| matches!(i, Top::Rule(_)))
        .map(|(k, _)| k)
        .collect();
    if idxs.len() >= 2 && t.next(2) == 1 {
        let a = idxs[t.next(idxs.len() as u32 - 1) as usize];
        let later: Vec<usize> = idxs.iter().copied().filter(|k| *k > a).collect();
        let b = later[t.next(later.len() as u32) as usize];
        let re = match &spec.items[a] {
            Top::Rule(r) => r.re.clone(),
            _ => unreachable!(),
        };
        if let Top::Rule(r) = &mut spec.items[b] {
            r.re = re;
        }
    }
}

/// Names the tail of a rule (or of its right context) that contains `$` with a top-level
/// variable: `"//" _* ('\n' | $)` becomes `let e0 = '\n' | $; … "//" _* $e0` (the `$` stays in
/// tail position; `$var` stands for its bound regex as a unit).
pub fn eoi_via_var(spec: &mut Spec, tape: &[u32]) {
    let mut t = Tape::new(tape);
    let mut defs: Vec<(String, Re)> = vec![];
    fn tail_mut(re: &mut Re) -> &mut Re {
        match re {
            Re::Cat(_, b) => tail_mut(b),
            other => other,
        }
    }
    for rule in spec.rules_mut() {
        if defs.len() >= 3 {
            break;
        }
        for which in 0..2 {
            let target: Option<&mut Re> = if which == 0 { Some(&mut rule.re) } else { rule.ctx.as_mut() };
            if let Some(re) = target {
                let tail = tail_mut(re);
                if tail.has_eoi() && !matches!(tail, Re::Var(_)) && t.next(2) == 0 {
                    let name = format!("e{}", defs.len());
                    let body = std::mem::replace(tail, Re::Var(name.clone()));
                    defs.push((name, body));
                }
            }
        }
    }
    let mut new_items: Vec<Top> = defs.into_iter().map(|(n, re)| Top::Let(n, re)).collect();
    new_items.append(&mut spec.items);
    spec.items = new_items;
}

/// Gives one rule the context `X | $` where `X` is the context of another rule of the definition
/// (two contexts whose automata differ only in an end-of-input edge); half of the time the two
/// rules also share their lexeme regex.
pub fn ctx_eoi_twin(spec: &mut Spec, tape: &[u32]) {
    let mut t = Tape::new(tape);
    let mut rules = spec.rules_mut();
    if rules.len() < 2 {
        return;
    }
    let with_ctx: Vec<usize> = rules
        .iter()
        .enumerate()
        .filter(|(_, r)| r.ctx.as_ref().map(|c| !c.has_eoi()).unwrap_or(false) && !r.re.has_eoi())
        .map(|(k, _)| k)
        .collect();
    if with_ctx.is_empty() {
        return;
    }
    let a = with_ctx[t.next(with_ctx.len() as u32) as usize];
    let mut b = t.next(rules.len() as u32 - 1) as usize;
    if b >= a {
        b += 1;
    }
    if rules[b].re.has_eoi() {
        return;
    }
    let x = rules[a].ctx.clone().unwrap();
    rules[b].ctx = Some(alt(x, Re::Eoi));
    if t.next(2) == 0 {
        rules[b].re = rules[a].re.clone();
    }
}

fn factor_in(re: &mut Re, t: &mut Tape, pct: u32, defs: &mut Vec<(String, Re)>, prefix: &str, depth: u32) {
    // `$` must stay in tail position textually, so subtrees containing it are not factored out.
    let can = !re.has_eoi() && !matches!(re, Re::Var(_));
    if can && defs.len() < 4 && t.next(100) < pct {
        let name = format!("{}{}", prefix, defs.len());
        let body = std::mem::replace(re, Re::Var(name.clone()));
        defs.push((name, body));
        return;
    }
    if depth > 8 {
        return;
    }
    match re {
        Re::Star(a) | Re::Plus(a) | Re::Opt(a) => factor_in(a, t, pct, defs, prefix, depth + 1),
        Re::Cat(a, b) | Re::Alt(a, b) | Re::Diff(a, b) => {
            factor_in(a, t, pct, defs, prefix, depth + 1);
            factor_in(b, t, pct, defs, prefix, depth + 1);
        }
        _ => {}
    }
}

/// Names random subtrees (of rules and right contexts) with `let`: rule-set-local ones are called
/// l0, l1, … in every rule set (the same names are bound differently in different rule sets),
/// top-level ones t0, t1, … . Bindings are placed before their uses.
pub fn factor_lets(spec: &mut Spec, tape: &[u32], pct: u32) {
    let mut t = Tape::new(tape);
    let mut top_defs: Vec<(String, Re)> = vec![];
    for item in spec.items.iter_mut() {
        match item {
            Top::RuleSet { items, .. } => {
                let mut local: Vec<(String, Re)> = vec![];
                for i in items.iter_mut() {
                    if let Inner::Rule(r) = i {
                        let use_top = t.next(2) == 0;
                        if use_top {
                            factor_in(&mut r.re, &mut t, pct, &mut top_defs, "t", 0);
                            if let Some(c) = &mut r.ctx {
                                factor_in(c, &mut t, pct, &mut top_defs, "t", 0);
                            }
                        } else {
                            factor_in(&mut r.re, &mut t, pct, &mut local, "l", 0);
                            if let Some(c) = &mut r.ctx {
                                factor_in(c, &mut t, pct * 2, &mut local, "l", 0);
                            }
                        }
                    }
                }
                let mut local_nested: Vec<(String, Re)> = vec![];
                for (n, mut body) in local {
                    if t.next(3) == 0 {
                        let mut inner: Vec<(String, Re)> = vec![];
                        let side = t.next(3);
                        if let Re::Cat(a, b) | Re::Alt(a, b) | Re::Diff(a, b) = &mut body {
                            if side != 1 {
                                factor_in(a, &mut t, 70, &mut inner, &format!("k{}_", local_nested.len()), 0);
                            }
                            if side != 0 {
                                factor_in(b, &mut t, 70, &mut inner, &format!("j{}_", local_nested.len()), 0);
                            }
                        }
                        local_nested.extend(inner);
                    }
                    local_nested.push((n, body));
                }
                let mut new_items: Vec<Inner> = local_nested.into_iter().map(|(n, re)| Inner::Let(n, re)).collect();
                new_items.append(items);
                *items = new_items;
            }
            Top::Rule(r) => {
                factor_in(&mut r.re, &mut t, pct, &mut top_defs, "t", 0);
                if let Some(c) = &mut r.ctx {
                    factor_in(c, &mut t, pct, &mut top_defs, "t", 0);
                }
            }
            _ => {}
        }
    }
    // nested: a later top-level binding may use an earlier one — in its left operand, its right
    // operand, or both
    let mut nested: Vec<(String, Re)> = vec![];
    for (n, mut body) in top_defs {
        if t.next(3) == 0 {
            let mut inner: Vec<(String, Re)> = vec![];
            let side = t.next(3);
            if let Re::Cat(a, b) | Re::Alt(a, b) | Re::Diff(a, b) = &mut body {
                if side != 1 {
                    factor_in(a, &mut t, 70, &mut inner, &format!("n{}_", nested.len()), 0);
                }
                if side != 0 {
                    factor_in(b, &mut t, 70, &mut inner, &format!("m{}_", nested.len()), 0);
                }
            }
            nested.extend(inner);
        }
        nested.push((n, body));
    }
    let mut new_items: Vec<Top> = nested.into_iter().map(|(n, re)| Top::Let(n, re)).collect();
    new_items.append(&mut spec.items);
    spec.items = new_items;
    // half of the time: every top-level binding moves down to just before its first use (between
    // rules, between rule sets) — "visible in every later rule and rule set"
    if t.next(2) == 0 {
        sink_top_lets(spec);
    }
}

fn re_uses(re: &Re, name: &str) -> bool {
    match re {
        Re::Var(n) => n == name,
        Re::Star(a) | Re::Plus(a) | Re::Opt(a) => re_uses(a, name),
        Re::Cat(a, b) | Re::Alt(a, b) | Re::Diff(a, b) => re_uses(a, name) || re_uses(b, name),
        _ => false,
    }
}

fn top_uses(item: &Top, name: &str) -> bool {
    let rule_uses = |r: &Rule| re_uses(&r.re, name) || r.ctx.as_ref().map(|c| re_uses(c, name)).unwrap_or(false);
    match item {
        Top::Let(_, re) => re_uses(re, name),
        Top::Rule(r) => rule_uses(r),
        Top::RuleSet { items, .. } => items.iter().any(|i| match i {
            Inner::Let(_, re) => re_uses(re, name),
            Inner::Rule(r) => rule_uses(r),
        }),
        _ => false,
    }
}

/// Moves every top-level `let` to the position just before the first item that mentions its
/// name (processed from the last binding to the first, so that chains keep their order).
pub fn sink_top_lets(spec: &mut Spec) {
    let mut i = spec.items.len();
    while i > 0 {
        i -= 1;
        let name = match &spec.items[i] {
            Top::Let(n, _) => n.clone(),
            _ => continue,
        };
        let first_use = (i + 1..spec.items.len()).find(|&j| top_uses(&spec.items[j], &name));
        let target = match first_use {
            Some(j) => j - 1,
            None => continue,
        };
        if target > i {
            let item = spec.items.remove(i);
            spec.items.insert(target, item);
        }
    }
}

/// A class with many scattered pieces (more than the guard-chain threshold of the generated code).
pub fn many_piece_set(tape: &[u32], n: usize) -> Re {
    let mut t = Tape::new(tape);
    let mut items = vec![];
    let mut x = 0x100 + t.next(0x400);
    for _ in 0..n {
        let len = t.next(4);
        let a = char::from_u32(x).unwrap_or('a');
        let b = char::from_u32(x + len).unwrap_or(a);
        if len == 0 {
            items.push(SetItem::C(a));
        } else {
            items.push(SetItem::R(a, b));
        }
        // one gap in five is empty: the next piece touches this one (`'A'-'F' 'G'-'Z'`)
        x += len + if t.next(5) == 4 { 1 } else { 2 + t.next(40) };
        if (0xD7F0..0xE010).contains(&x) {
            x = 0xE010;
        }
    }
    Re::Set(items)
}

/// In every rule set, binds the right context of each context-bearing rule to a rule-set-local
/// variable `c0`, `c1`, … and writes the context as `$c0`, …: the same names are bound to different
/// regexes in different rule sets, and the contexts are spelled identically.
pub fn local_ctx_lets(spec: &mut Spec) {
    for item in spec.items.iter_mut() {
        if let Top::RuleSet { items, .. } = item {
            let mut defs: Vec<Inner> = vec![];
            for i in items.iter_mut() {
                if let Inner::Rule(r) = i {
                    if let Some(c) = &mut r.ctx {
                        if !c.has_eoi() && !c.has_var() {
                            let name = format!("c{}", defs.len());
                            let body = std::mem::replace(c, Re::Var(name.clone()));
                            defs.push(Inner::Let(name, body));
                        }
                    }
                }
            }
            defs.append(items);
            *items = defs;
        }
    }
}


fn reuse_in(re: &mut Re, t: &mut Tape, names: &[String], pct: u32, depth: u32) {
    if names.is_empty() || depth > 8 {
        return;
    }
    let replaceable = !re.has_eoi() && !matches!(re, Re::Var(_));
    if replaceable && t.next(100) < pct {
        *re = Re::Var(names[t.next(names.len() as u32) as usize].clone());
        return;
    }
    match re {
        Re::Star(a) | Re::Plus(a) | Re::Opt(a) => reuse_in(a, t, names, pct, depth + 1),
        Re::Cat(a, b) | Re::Alt(a, b) => {
            reuse_in(a, t, names, pct, depth + 1);
            reuse_in(b, t, names, pct, depth + 1);
        }
        // operands of `#` must stay classes
        _ => {}
    }
}

/// Uses variables that are already in scope a second (third, …) time: random subtrees of rules
/// are replaced by `$name` for a top-level or rule-set-local name bound before the rule, so that
/// one variable occurs several times in a rule set with different text around it.
pub fn reuse_vars(spec: &mut Spec, tape: &[u32], pct: u32) {
    let mut t = Tape::new(tape);
    let mut top: Vec<String> = vec![];
    for item in spec.items.iter_mut() {
        match item {
            Top::Let(n, _) => top.push(n.clone()),
            Top::Rule(r) => reuse_in(&mut r.re, &mut t, &top, pct, 0),
            Top::RuleSet { items, .. } => {
                let mut scope = top.clone();
                for i in items.iter_mut() {
                    match i {
                        Inner::Let(n, _) => scope.push(n.clone()),
                        Inner::Rule(r) => {
                            reuse_in(&mut r.re, &mut t, &scope, pct, 0);
                            // rules must stay non-nullable
                        }
                    }
                }
            }
            _ => {}
        }
    }
}

/// After variable surgery a rule may have become nullable: prefix an atom where needed.
pub fn repair_nullable(spec: &mut Spec, atom: char) {
    let flat = match spec.flatten() {
        Ok(f) => f,
        Err(_) => return,
    };
    let nullable: Vec<bool> = flat.sets.iter().flat_map(|s| s.rules.iter().map(|r| r.re.nullable())).collect();
    for (r, n) in spec.rules_mut().into_iter().zip(nullable) {
        if n {
            r.re = cat(Re::Char(atom), r.re.clone());
        }
    }
}

/// Keyword shape: picks rules a < b < c of one rule set, samples a lexeme w of rule b, and makes
/// rule c the string literal w and rule a the string literal w·x (one more character): a longer
/// keyword listed first, a general rule in the middle, and a shorter keyword that is a prefix of
/// the first one and ties with the general rule.
pub fn keyword_prefixes(spec: &mut Spec, tape: &[u32], extra: &[char]) {
    let mut t = Tape::new(tape);
    let do_rules = |rules: &mut Vec<&mut Rule>, t: &mut Tape| {
        if rules.len() < 3 {
            return;
        }
        let b = 1 + t.next(rules.len() as u32 - 2) as usize;
        let a = t.next(b as u32) as usize;
        let c = b + 1 + t.next((rules.len() - b - 1) as u32) as usize;
        if rules[b].re.has_var() || rules[b].re.has_eoi() {
            return;
        }
        let mut w = String::new();
        sample_re(&rules[b].re, t, &mut w, 0);
        if w.is_empty() || w.chars().count() > 6 {
            return;
        }
        let x = if extra.is_empty() { 'a' } else { extra[t.next(extra.len() as u32) as usize] };
        let mut w1 = w.clone();
        w1.push(x);
        rules[c].re = Re::Str(w);
        rules[c].ctx = None;
        rules[a].re = Re::Str(w1);
        rules[a].ctx = None;
    };
    for item in spec.items.iter_mut() {
        if let Top::RuleSet { items, .. } = item {
            let mut rules: Vec<&mut Rule> = items
                .iter_mut()
                .filter_map(|i| match i {
                    Inner::Rule(r) => Some(r),
                    _ => None,
                })
                .collect();
            do_rules(&mut rules, &mut t);
        }
    }
    let mut top: Vec<&mut Rule> = spec
        .items
        .iter_mut()
        .filter_map(|i| match i {
            Top::Rule(r) => Some(r),
            _ => None,
        })
        .collect();
    do_rules(&mut top, &mut t);
}

/// A bracket set of `n` individually listed characters (no ranges), e.g. operator characters.
pub fn many_char_set(tape: &[u32], n: usize) -> Re {
    let mut t = Tape::new(tape);
    // … and characters whose low byte equals that of an ASCII member of the pool (U+0141/'A',
    // U+FF01/'!', U+3001/U+FF01, U+2B2B/'+', U+013A/':')
    let pool: Vec<char> = "+-*/%<>=!&|^~?:.,;@#$_".chars().chain('A'..='Z').chain("αβγδεζηθ→←↑↓\u{141}\u{ff01}\u{3001}\u{2b2b}\u{13a}\u{25f}".chars()).collect();
    let mut items: Vec<SetItem> = vec![];
    let mut used: Vec<char> = vec![];
    let mut k = t.next(pool.len() as u32) as usize;
    // one in four: 8 more characters (more than 16 in all)
    let n = if t.next(4) == 0 { n + 8 } else { n };
    while items.len() < n.min(pool.len()) {
        let c = pool[k % pool.len()];
        k += 1 + t.next(3) as usize;
        if !used.contains(&c) {
            used.push(c);
            items.push(SetItem::C(c));
        }
    }
    // one in three: an early character listed again at the end (legal; the set is a union)
    if t.next(3) == 0 && !items.is_empty() {
        let j = t.next(items.len().min(16) as u32) as usize;
        let again = items[j].clone();
        items.push(again);
    }
    Re::Set(items)
}


/// Gives one rule the shape `p1 T | p2 T`: two alternatives with different heads and the SAME tail
/// (separate copies of the tail's automaton that behave identically).
pub fn shared_tails(spec: &mut Spec, tape: &[u32], chars: &[char]) {
    let mut t = Tape::new(tape);
    let mut rules = spec.rules_mut();
    if rules.is_empty() || chars.is_empty() {
        return;
    }
    let k = t.next(rules.len() as u32) as usize;
    let mut atom = |t: &mut Tape| -> Re {
        let c = chars[t.next(chars.len() as u32) as usize];
        match t.next(4) {
            0 => Re::Str(format!("{}{}", c, chars[t.next(chars.len() as u32) as usize])),
            1 => plus(Re::Char(c)),
            _ => Re::Char(c),
        }
    };
    let mut head = |t: &mut Tape| -> Re {
        match t.next(5) {
            0 => alt(atom(t), atom(t)),
            1 => cat(alt(atom(t), atom(t)), atom(t)),
            2 => alt(cat(atom(t), atom(t)), cat(atom(t), atom(t))),
            _ => atom(t),
        }
    };
    let p1 = head(&mut t);
    let mut p2 = head(&mut t);
    if p2 == p1 {
        p2 = cat(p2, Re::Char(chars[0]));
    }
    let tail = if t.next(2) == 0 { atom(&mut t) } else { cat(atom(&mut t), atom(&mut t)) };
    let mut re = alt(cat(p1, tail.clone()), cat(p2, tail.clone()));
    if t.next(2) == 1 {
        re = alt(re, cat(cat(atom(&mut t), atom(&mut t)), tail));
    }
    if !rules[k].re.has_eoi() {
        rules[k].re = re;
    }
}
