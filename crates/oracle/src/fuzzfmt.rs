//! Byte format of the coverage-guided fuzz target `lex_inputs`:
//! [lexer index][ctor][script length L (0..=8)][L × (tag, arg)] then the UTF-8 input (lossy).

use proto::{Case, Ctor, Dec};

pub const MAX_INPUT_CHARS: usize = 48;

fn dec_of(tag: u8, arg: u8) -> Dec {
    match tag % 8 {
        0 => Dec::Ret,
        1 => Dec::Cont,
        2 => Dec::ResetCont,
        3 => Dec::Switch(arg as u32 % 8),
        4 => Dec::SwitchRet(arg as u32 % 8),
        5 => Dec::ResetRet,
        6 => Dec::ResetSwitch(arg as u32 % 8),
        _ => Dec::Err(1 + arg as u32),
    }
}

fn tag_of(d: &Dec) -> (u8, u8) {
    match *d {
        Dec::Ret => (0, 0),
        Dec::Cont => (1, 0),
        Dec::ResetCont => (2, 0),
        Dec::Switch(k) => (3, k as u8),
        Dec::SwitchRet(k) => (4, k as u8),
        Dec::ResetRet => (5, 0),
        Dec::ResetSwitch(k) => (6, k as u8),
        Dec::Err(n) => (7, (n.saturating_sub(1)) as u8),
    }
}

pub fn decode(data: &[u8], n_lexers: usize) -> Option<(usize, Case)> {
    if data.len() < 3 || n_lexers == 0 {
        return None;
    }
    let idx = data[0] as usize % n_lexers;
    let ctor = Ctor::from_u8(data[1]);
    let l = (data[2] % 9) as usize;
    if data.len() < 3 + 2 * l {
        return None;
    }
    let mut script = vec![];
    for k in 0..l {
        script.push(dec_of(data[3 + 2 * k], data[4 + 2 * k]));
    }
    let input: String = String::from_utf8_lossy(&data[3 + 2 * l..])
        .chars()
        .take(MAX_INPUT_CHARS)
        .collect();
    Some((
        idx,
        Case {
            ctor,
            input,
            script,
            clone_at: None,
            sched: 0,
            extra_nexts: 2,
        },
    ))
}

pub fn encode(idx: usize, case: &Case) -> Vec<u8> {
    let mut v = vec![idx as u8, case.ctor as u8, case.script.len().min(8) as u8];
    for d in case.script.iter().take(8) {
        let (t, a) = tag_of(d);
        v.push(t);
        v.push(a);
    }
    v.extend_from_slice(case.input.as_bytes());
    v
}
