//! Second, independent reference matcher (Appendix A of DESIGN.md): memoised recursion over the
//! syntax tree computing end positions, viable-prefix positions and "can still be extended"
//! positions. No derivatives, no alphabet partition, no automaton — it exists to cross-check the
//! derivative-based matcher that the checks use.

use crate::model::{Matcher, Scan};
use crate::re::Re;
use crate::spec::{Flat, Kind};
use std::collections::{BTreeSet, HashMap};

type Set = BTreeSet<usize>;

struct ERule {
    id: u32,
    kind: Kind,
    re: Re,
    ctx: Option<Re>,
}

pub struct EndsRef {
    sets: Vec<Vec<ERule>>,
    named: bool,
}

impl EndsRef {
    pub fn new(flat: &Flat) -> EndsRef {
        EndsRef {
            sets: flat
                .sets
                .iter()
                .map(|s| {
                    s.rules
                        .iter()
                        .map(|r| ERule {
                            id: r.id,
                            kind: r.kind.clone(),
                            re: r.re.clone(),
                            ctx: r.ctx.clone(),
                        })
                        .collect()
                })
                .collect(),
            named: flat.named,
        }
    }
}

#[derive(Clone, Copy, PartialEq, Eq, Hash)]
enum What {
    Ends,
    Pre,
    PreX,
}

struct Ctx<'a> {
    chars: &'a [char],
    memo: HashMap<(usize, usize, What), Set>,
}

impl<'a> Ctx<'a> {
    fn n(&self) -> usize {
        self.chars.len()
    }

    fn class_step(&self, re: &Re, i: usize) -> Option<usize> {
        if i < self.n() {
            let c = re.class().expect("class");
            if c.contains(self.chars[i] as u32) {
                return Some(i + 1);
            }
        }
        None
    }

    fn star_closure(&mut self, a: &Re, from: Set) -> Set {
        let mut r = from.clone();
        let mut work: Vec<usize> = from.into_iter().collect();
        while let Some(m) = work.pop() {
            for e in self.get(a, m, What::Ends) {
                if r.insert(e) {
                    work.push(e);
                }
            }
        }
        r
    }

    fn get(&mut self, re: &Re, i: usize, w: What) -> Set {
        let key = (re as *const Re as usize, i, w);
        if let Some(s) = self.memo.get(&key) {
            return s.clone();
        }
        let s = self.compute(re, i, w);
        self.memo.insert(key, s.clone());
        s
    }

    fn compute(&mut self, re: &Re, i: usize, w: What) -> Set {
        let n = self.n();
        let mut out = Set::new();
        match re {
            Re::Char(_) | Re::Set(_) | Re::Any | Re::Builtin(_) | Re::Diff(..) => match w {
                What::Ends => {
                    if let Some(j) = self.class_step(re, i) {
                        out.insert(j);
                    }
                }
                What::Pre => {
                    out.insert(i);
                    if let Some(j) = self.class_step(re, i) {
                        out.insert(j);
                    }
                }
                What::PreX => {
                    out.insert(i);
                }
            },
            Re::Str(s) => {
                let cs: Vec<char> = s.chars().collect();
                let mut j = i;
                let mut matched = 0;
                if w != What::Ends {
                    out.insert(i);
                }
                for c in &cs {
                    if j < n && self.chars[j] == *c {
                        j += 1;
                        matched += 1;
                        match w {
                            What::Ends => {}
                            What::Pre => {
                                out.insert(j);
                            }
                            What::PreX => {
                                if matched < cs.len() {
                                    out.insert(j);
                                }
                            }
                        }
                    } else {
                        break;
                    }
                }
                if w == What::Ends && matched == cs.len() {
                    out.insert(j);
                }
                if w == What::PreX && cs.is_empty() {
                    out.remove(&i);
                }
            }
            Re::Eoi => match w {
                What::Ends => {
                    if i == n {
                        out.insert(n + 1);
                    }
                }
                What::Pre => {
                    out.insert(i);
                    if i == n {
                        out.insert(n + 1);
                    }
                }
                What::PreX => {
                    out.insert(i);
                }
            },
            Re::Star(a) | Re::Plus(a) => {
                let is_plus = matches!(re, Re::Plus(_));
                // positions at which an iteration of `a` may start
                let mut starts = Set::new();
                starts.insert(i);
                let all = self.star_closure(a, starts.clone());
                match w {
                    What::Ends => {
                        if is_plus {
                            let first = self.get(a, i, What::Ends);
                            out = self.star_closure(a, first);
                        } else {
                            out = all;
                        }
                    }
                    What::Pre | What::PreX => {
                        for m in all {
                            out.extend(self.get(a, m, w));
                        }
                    }
                }
            }
            Re::Opt(a) => {
                out = self.get(a, i, w);
                if w == What::Ends || w == What::Pre {
                    out.insert(i);
                }
            }
            Re::Cat(a, b) => {
                let mids = self.get(a, i, What::Ends);
                match w {
                    What::Ends => {
                        for m in mids {
                            out.extend(self.get(b, m, What::Ends));
                        }
                    }
                    What::Pre | What::PreX => {
                        out = self.get(a, i, w);
                        for m in mids {
                            out.extend(self.get(b, m, w));
                        }
                    }
                }
            }
            Re::Alt(a, b) => {
                out = self.get(a, i, w);
                out.extend(self.get(b, i, w));
            }
            Re::Var(v) => panic!("unexpanded variable {}", v),
        }
        out
    }
}

impl Matcher for EndsRef {
    fn n_sets(&self) -> usize {
        self.sets.len()
    }

    fn named(&self) -> bool {
        self.named
    }

    fn rule(&self, set: usize, idx: usize) -> (u32, Kind) {
        let r = &self.sets[set][idx];
        (r.id, r.kind.clone())
    }

    fn scan(&mut self, set: usize, chars: &[char], p: usize) -> Scan {
        let n = chars.len();
        let mut cx = Ctx {
            chars,
            memo: HashMap::new(),
        };
        let rules = &self.sets[set];
        let ends: Vec<Set> = rules.iter().map(|r| cx.get(&r.re, p, What::Ends)).collect();
        let pre: Vec<Set> = rules.iter().map(|r| cx.get(&r.re, p, What::Pre)).collect();
        let prex: Vec<Set> = rules.iter().map(|r| cx.get(&r.re, p, What::PreX)).collect();
        let mut i = p;
        let mut best = None;
        let mut ctx_rejected = false;
        let mut tie = false;
        loop {
            if i != p && !prex.iter().any(|s| s.contains(&i)) {
                break;
            }
            if i == n + 1 {
                break;
            }
            i += 1;
            if !pre.iter().any(|s| s.contains(&i)) {
                break;
            }
            let mut chosen = None;
            let mut n_ok = 0;
            for (k, r) in rules.iter().enumerate() {
                if ends[k].contains(&i) {
                    let ok = match &r.ctx {
                        None => true,
                        Some(c) => !cx.get(c, i.min(n), What::Ends).is_empty(),
                    };
                    if ok {
                        n_ok += 1;
                        if chosen.is_none() {
                            chosen = Some(k);
                        }
                    } else {
                        ctx_rejected = true;
                    }
                }
            }
            if let Some(k) = chosen {
                best = Some((i, k));
                tie = n_ok > 1;
            }
        }
        let rewound = match best {
            Some((e, _)) => i > e,
            None => false,
        };
        Scan {
            best,
            examined: i,
            rewound,
            ctx_rejected,
            tie,
        }
    }
}
