//! Sets of Unicode scalar values as sorted, disjoint, non-adjacent inclusive intervals.
//! Written for the oracle; shares nothing with lexgen's `RangeMap`.

use std::sync::OnceLock;

pub const MAX: u32 = 0x10FFFF;
pub const SUR_LO: u32 = 0xD800;
pub const SUR_HI: u32 = 0xDFFF;

#[derive(Clone, Debug, PartialEq, Eq, Hash, Default)]
pub struct Cls(pub Vec<(u32, u32)>);

impl Cls {
    pub fn empty() -> Cls {
        Cls(vec![])
    }

    pub fn any() -> Cls {
        Cls(vec![(0, SUR_LO - 1), (SUR_HI + 1, MAX)])
    }

    pub fn single(c: char) -> Cls {
        Cls(vec![(c as u32, c as u32)])
    }

    /// Normalises arbitrary (possibly overlapping, unsorted, inverted) intervals; surrogates are
    /// removed.
    pub fn from_ranges(mut v: Vec<(u32, u32)>) -> Cls {
        v.retain(|&(a, b)| a <= b);
        v.sort();
        let mut out: Vec<(u32, u32)> = Vec::with_capacity(v.len());
        for (a, b) in v {
            match out.last_mut() {
                Some(last) if a <= last.1.saturating_add(1) => {
                    if b > last.1 {
                        last.1 = b;
                    }
                }
                _ => out.push((a, b)),
            }
        }
        Cls(out).minus(&Cls(vec![(SUR_LO, SUR_HI)])).clip()
    }

    fn clip(mut self) -> Cls {
        self.0.retain(|&(a, _)| a <= MAX);
        if let Some(l) = self.0.last_mut() {
            if l.1 > MAX {
                l.1 = MAX;
            }
        }
        self
    }

    pub fn is_empty(&self) -> bool {
        self.0.is_empty()
    }

    pub fn contains(&self, c: u32) -> bool {
        let i = self.0.partition_point(|&(_, b)| b < c);
        i < self.0.len() && self.0[i].0 <= c
    }

    pub fn union(&self, o: &Cls) -> Cls {
        let mut v = self.0.clone();
        v.extend_from_slice(&o.0);
        Cls::from_ranges(v)
    }

    pub fn minus(&self, o: &Cls) -> Cls {
        let mut out = vec![];
        let mut j = 0;
        for &(a, b) in &self.0 {
            let mut lo = a;
            let mut dead = false;
            while j < o.0.len() && o.0[j].1 < lo {
                j += 1;
            }
            let mut k = j;
            while k < o.0.len() && o.0[k].0 <= b {
                let (c, d) = o.0[k];
                if c > lo {
                    out.push((lo, c - 1));
                }
                if d >= b {
                    dead = true;
                    break;
                }
                lo = d + 1;
                k += 1;
            }
            if !dead && lo <= b {
                out.push((lo, b));
            }
        }
        Cls(out)
    }

    pub fn count(&self) -> u64 {
        self.0.iter().map(|&(a, b)| (b - a + 1) as u64).sum()
    }

    /// First scalar of the class.
    pub fn first(&self) -> Option<char> {
        self.0.first().and_then(|&(a, _)| char::from_u32(a))
    }

    /// All end points, and their neighbours, that are scalar values.
    pub fn boundary_chars(&self) -> Vec<char> {
        let mut v = vec![];
        for &(a, b) in &self.0 {
            for x in [a.wrapping_sub(1), a, a + 1, b.wrapping_sub(1), b, b + 1] {
                if let Some(c) = char::from_u32(x) {
                    v.push(c);
                }
            }
        }
        v.sort();
        v.dedup();
        v
    }
}

pub const BUILTIN_NAMES: [&str; 20] = [
    "alphabetic",
    "alphanumeric",
    "ascii",
    "ascii_alphabetic",
    "ascii_alphanumeric",
    "ascii_control",
    "ascii_digit",
    "ascii_graphic",
    "ascii_hexdigit",
    "ascii_lowercase",
    "ascii_punctuation",
    "ascii_uppercase",
    "ascii_whitespace",
    "control",
    "lowercase",
    "numeric",
    "uppercase",
    "whitespace",
    "XID_Start",
    "XID_Continue",
];

/// The Rust predicate each built-in name is documented to equal.
pub fn builtin_pred(name: &str) -> Option<fn(char) -> bool> {
    Some(match name {
        "alphabetic" => char::is_alphabetic,
        "alphanumeric" => char::is_alphanumeric,
        "ascii" => |c: char| c.is_ascii(),
        "ascii_alphabetic" => |c: char| c.is_ascii_alphabetic(),
        "ascii_alphanumeric" => |c: char| c.is_ascii_alphanumeric(),
        "ascii_control" => |c: char| c.is_ascii_control(),
        "ascii_digit" => |c: char| c.is_ascii_digit(),
        "ascii_graphic" => |c: char| c.is_ascii_graphic(),
        "ascii_hexdigit" => |c: char| c.is_ascii_hexdigit(),
        "ascii_lowercase" => |c: char| c.is_ascii_lowercase(),
        "ascii_punctuation" => |c: char| c.is_ascii_punctuation(),
        "ascii_uppercase" => |c: char| c.is_ascii_uppercase(),
        "ascii_whitespace" => |c: char| c.is_ascii_whitespace(),
        "control" => char::is_control,
        "lowercase" => char::is_lowercase,
        "numeric" => char::is_numeric,
        "uppercase" => char::is_uppercase,
        "whitespace" => char::is_whitespace,
        "XID_Start" => |c: char| unicode_xid::UnicodeXID::is_xid_start(c),
        "XID_Continue" => |c: char| unicode_xid::UnicodeXID::is_xid_continue(c),
        _ => return None,
    })
}

pub fn cls_of_pred(f: impl Fn(char) -> bool) -> Cls {
    let mut v = vec![];
    let mut start: Option<u32> = None;
    let mut last = 0u32;
    for i in 0..=MAX {
        let c = match char::from_u32(i) {
            Some(c) => c,
            None => {
                // surrogate: close any open run at the last scalar
                if let Some(s) = start.take() {
                    v.push((s, last));
                }
                continue;
            }
        };
        if f(c) {
            if start.is_none() {
                start = Some(i);
            }
            last = i;
        } else if let Some(s) = start.take() {
            v.push((s, last));
        }
    }
    if let Some(s) = start {
        v.push((s, last));
    }
    Cls(v)
}

pub fn builtin_cls(name: &str) -> Option<&'static Cls> {
    static TABLE: OnceLock<Vec<Cls>> = OnceLock::new();
    let idx = BUILTIN_NAMES.iter().position(|n| *n == name)?;
    let t = TABLE.get_or_init(|| {
        BUILTIN_NAMES
            .iter()
            .map(|n| cls_of_pred(builtin_pred(n).unwrap()))
            .collect()
    });
    Some(&t[idx])
}

#[cfg(test)]
mod tests {
    use super::*;
    use proptest::prelude::*;

    fn bits(c: &Cls) -> u64 {
        let mut b = 0u64;
        for i in 0..64 {
            if c.contains(i) {
                b |= 1 << i;
            }
        }
        b
    }

    proptest! {
        #[test]
        fn algebra_matches_bitsets(a in proptest::collection::vec((0u32..64, 0u32..64), 0..6),
                                   b in proptest::collection::vec((0u32..64, 0u32..64), 0..6)) {
            let ca = Cls::from_ranges(a);
            let cb = Cls::from_ranges(b);
            prop_assert_eq!(bits(&ca.union(&cb)), bits(&ca) | bits(&cb));
            prop_assert_eq!(bits(&ca.minus(&cb)), bits(&ca) & !bits(&cb));
            for w in ca.minus(&cb).0.windows(2) { prop_assert!(w[0].1 + 1 < w[1].0); }
            for w in ca.union(&cb).0.windows(2) { prop_assert!(w[0].1 + 1 < w[1].0); }
        }
    }
}
