//! A recogniser for the documented regex syntax over tokens, written from the README's grammar
//! (used to decide whether a token-level mutation of a regex is still syntactically a regex).

#[derive(Clone, Debug, PartialEq, Eq)]
pub enum Tok {
    Char(String),
    Str(String),
    Ident(String),
    /// one of ( ) [ ] | * + ? # $ _ -
    P(char),
}

impl Tok {
    pub fn text(&self) -> String {
        match self {
            Tok::Char(s) | Tok::Str(s) | Tok::Ident(s) => s.clone(),
            Tok::P(c) => c.to_string(),
        }
    }
}

/// Tokenises the output of `print_re` (character / string literals with escapes, identifiers,
/// single-character punctuation). Returns None on anything else.
pub fn tokenize(s: &str) -> Option<Vec<Tok>> {
    let cs: Vec<char> = s.chars().collect();
    let mut i = 0;
    let mut out = vec![];
    while i < cs.len() {
        let c = cs[i];
        if c.is_whitespace() {
            i += 1;
        } else if c == '\'' {
            let mut j = i + 1;
            if j < cs.len() && cs[j] == '\\' {
                j += 1;
                if j < cs.len() && cs[j] == 'u' {
                    while j < cs.len() && cs[j] != '}' {
                        j += 1;
                    }
                }
                j += 1;
            } else {
                j += 1;
            }
            if j >= cs.len() || cs[j] != '\'' {
                return None;
            }
            out.push(Tok::Char(cs[i..=j].iter().collect()));
            i = j + 1;
        } else if c == '"' {
            let mut j = i + 1;
            while j < cs.len() && cs[j] != '"' {
                if cs[j] == '\\' {
                    j += 1;
                }
                j += 1;
            }
            if j >= cs.len() {
                return None;
            }
            out.push(Tok::Str(cs[i..=j].iter().collect()));
            i = j + 1;
        } else if c == '_' && !(i + 1 < cs.len() && (cs[i + 1].is_alphanumeric() || cs[i + 1] == '_')) {
            out.push(Tok::P('_'));
            i += 1;
        } else if c.is_alphabetic() || c == '_' {
            let mut j = i;
            while j < cs.len() && (cs[j].is_alphanumeric() || cs[j] == '_') {
                j += 1;
            }
            out.push(Tok::Ident(cs[i..j].iter().collect()));
            i = j;
        } else if "()[]|*+?#$-".contains(c) {
            out.push(Tok::P(c));
            i += 1;
        } else {
            return None;
        }
    }
    Some(out)
}

pub fn join(toks: &[Tok]) -> String {
    toks.iter().map(|t| t.text()).collect::<Vec<_>>().join(" ")
}

struct P<'a> {
    t: &'a [Tok],
    i: usize,
}

impl<'a> P<'a> {
    fn peek(&self) -> Option<&Tok> {
        self.t.get(self.i)
    }
    fn is_p(&self, c: char) -> bool {
        self.peek() == Some(&Tok::P(c))
    }
    fn starts_atom(&self) -> bool {
        match self.peek() {
            Some(Tok::Char(_)) | Some(Tok::Str(_)) => true,
            Some(Tok::P(c)) => matches!(c, '(' | '[' | '$' | '_'),
            _ => false,
        }
    }
    // alt := cat ('|' cat)*
    fn alt(&mut self) -> bool {
        if !self.cat() {
            return false;
        }
        while self.is_p('|') {
            self.i += 1;
            if !self.cat() {
                return false;
            }
        }
        true
    }
    // cat := post post*
    fn cat(&mut self) -> bool {
        if !self.post() {
            return false;
        }
        while self.starts_atom() {
            if !self.post() {
                return false;
            }
        }
        true
    }
    // post := diff ('*' | '+' | '?')*
    fn post(&mut self) -> bool {
        if !self.diff() {
            return false;
        }
        while self.is_p('*') || self.is_p('+') || self.is_p('?') {
            self.i += 1;
        }
        true
    }
    // diff := atom ('#' atom)*
    fn diff(&mut self) -> bool {
        if !self.atom() {
            return false;
        }
        while self.is_p('#') {
            self.i += 1;
            if !self.atom() {
                return false;
            }
        }
        true
    }
    fn atom(&mut self) -> bool {
        match self.peek().cloned() {
            Some(Tok::Char(_)) | Some(Tok::Str(_)) => {
                self.i += 1;
                true
            }
            Some(Tok::P('_')) => {
                self.i += 1;
                true
            }
            Some(Tok::P('$')) => {
                self.i += 1;
                if self.is_p('$') {
                    self.i += 1;
                    // `$$` must be followed by a name
                    if let Some(Tok::Ident(_)) = self.peek() {
                        self.i += 1;
                        true
                    } else {
                        false
                    }
                } else {
                    if let Some(Tok::Ident(_)) = self.peek() {
                        self.i += 1;
                    }
                    true
                }
            }
            Some(Tok::P('(')) => {
                self.i += 1;
                if !self.alt() {
                    return false;
                }
                if self.is_p(')') {
                    self.i += 1;
                    true
                } else {
                    false
                }
            }
            Some(Tok::P('[')) => {
                self.i += 1;
                loop {
                    match self.peek().cloned() {
                        Some(Tok::P(']')) => {
                            self.i += 1;
                            return true;
                        }
                        Some(Tok::Char(_)) => {
                            self.i += 1;
                            if self.is_p('-') {
                                self.i += 1;
                                if let Some(Tok::Char(_)) = self.peek() {
                                    self.i += 1;
                                } else {
                                    return false;
                                }
                            }
                        }
                        _ => return false,
                    }
                }
            }
            _ => false,
        }
    }
}

/// Is the token sequence a complete regex of the documented grammar?
pub fn is_regex(toks: &[Tok]) -> bool {
    let mut p = P { t: toks, i: 0 };
    p.alt() && p.i == toks.len()
}

/// Are the brackets / parentheses balanced (otherwise the definition is not even a token tree)?
pub fn balanced(toks: &[Tok]) -> bool {
    let mut st = vec![];
    for t in toks {
        match t {
            Tok::P('(') => st.push(')'),
            Tok::P('[') => st.push(']'),
            Tok::P(c @ ')') | Tok::P(c @ ']') => {
                if st.pop() != Some(*c) {
                    return false;
                }
            }
            _ => {}
        }
    }
    st.is_empty()
}

#[cfg(test)]
mod tests {
    use super::*;
    #[test]
    fn basics() {
        let ok = ["'a'", "'a' 'b' | 'c'+", "('a' | \"xy\") # 'b'*", "$", "$x", "$$alphabetic 'a'", "['a' 'b'-'c']", "_ # '\\u{301}'", "'a' $?", "[]"];
        for s in ok {
            assert!(is_regex(&tokenize(s).unwrap()), "{}", s);
        }
        let bad = ["", "('a' | \"xy\")* # 'b'", "'a' |", "* 'a'", "'a' #", "$$ 'a'", "$$", "['a'-]", "('a'", "x", "'a' x", "()", "'a' - 'b'", "[ 'a' - 'b' - 'c' ]", "['a' (]"];
        for s in bad {
            assert!(!is_regex(&tokenize(s).unwrap()), "{}", s);
        }
    }
}
