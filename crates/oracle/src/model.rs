//! The reference lexer: maximal munch over derivative automata, end of input as a virtual
//! symbol, right contexts, rule sets, the semantic-action protocol, failure recovery, locations.
//! Produces the `Trace` the generated lexer is expected to produce for a `Case`.

use crate::cls::Cls;
use crate::deriv::{Alphabet, Arena, Id, LazyDfa, EMPTY};
use crate::re::Re;
use crate::spec::{Flat, Kind};
use proto::{Case, Dec, Item, Loc, LogEntry, Run, Trace};
use unicode_width::UnicodeWidthChar;

pub struct CRule {
    pub id: u32,
    pub kind: Kind,
    pub ctx: Option<Id>,
}

pub struct CSet {
    pub rules: Vec<CRule>,
    pub dfa: LazyDfa,
}

/// What one scan from a lexeme boundary found.
#[derive(Debug, Clone, PartialEq, Eq)]
pub struct Scan {
    /// Longest match: (end position in symbols — `n+1` when the match went through `$`, index of
    /// the rule in its set).
    pub best: Option<(usize, usize)>,
    /// Position after the last symbol the lexer read during this scan (`n+1` if it read EOI).
    pub examined: usize,
    /// The scan needed to look beyond the end of the match it finally chose.
    pub rewound: bool,
    /// At least one candidate (rule, end) was discarded because its right context failed.
    pub ctx_rejected: bool,
    /// Two or more rules matched the chosen lexeme.
    pub tie: bool,
}

pub trait Matcher {
    fn n_sets(&self) -> usize;
    fn rule(&self, set: usize, idx: usize) -> (u32, Kind);
    /// Scan from position `p` of `chars` in rule set `set`.
    fn scan(&mut self, set: usize, chars: &[char], p: usize) -> Scan;
    fn named(&self) -> bool;
    /// The matcher gave up (step cap reached): the run is abandoned.
    fn gave_up(&self) -> bool {
        false
    }
}

pub struct Compiled {
    pub arena: Arena,
    pub sets: Vec<CSet>,
    pub named: bool,
    /// All classes occurring in the definition (for input generation).
    pub classes: Vec<Cls>,
    /// Symbols read so far by `scan` and by right-context evaluation (a deterministic cost
    /// measure used to keep long generated inputs away from quadratic / cubic worst cases).
    pub steps: u64,
    /// `scan` gives up (and sets `capped`) once `steps` reaches this value; used by the shrinker to
    /// reject candidate inputs that are quadratic for maximal munch. `u64::MAX` = no cap.
    pub step_cap: u64,
    pub capped: bool,
}

fn collect_classes(re: &Re, out: &mut Vec<Cls>) {
    match re {
        Re::Char(_) | Re::Set(_) | Re::Any | Re::Builtin(_) | Re::Diff(..) => {
            out.push(re.class().expect("class"))
        }
        Re::Str(s) => {
            for c in s.chars() {
                out.push(Cls::single(c));
            }
        }
        Re::Eoi => {}
        Re::Star(a) | Re::Plus(a) | Re::Opt(a) => collect_classes(a, out),
        Re::Cat(a, b) | Re::Alt(a, b) => {
            collect_classes(a, out);
            collect_classes(b, out);
        }
        Re::Var(v) => panic!("unexpanded variable {}", v),
    }
}

impl Compiled {
    /// True if the reference can lex `case` within `40 * len + 100 000` symbol reads (long inputs
    /// only; short ones are always affordable).
    pub fn affordable(&mut self, case: &proto::Case) -> bool {
        if case.input.len() < 4000 {
            return true;
        }
        self.step_cap = self.steps + 40 * case.input.len() as u64 + 100_000;
        self.capped = false;
        let _ = run_model(self, case);
        let ok = !self.capped;
        self.step_cap = u64::MAX;
        self.capped = false;
        ok
    }

    pub fn new(flat: &Flat) -> Compiled {
        let mut classes = vec![];
        for s in &flat.sets {
            for r in &s.rules {
                collect_classes(&r.re, &mut classes);
                if let Some(c) = &r.ctx {
                    collect_classes(c, &mut classes);
                }
            }
        }
        classes.sort_by(|a, b| a.0.cmp(&b.0));
        classes.dedup();
        let alphabet = Alphabet::new(&classes);
        let mut arena = Arena::new(alphabet);
        let mut sets = vec![];
        for s in &flat.sets {
            let mut rules = vec![];
            let mut roots = vec![];
            for r in &s.rules {
                roots.push(arena.build(&r.re));
                let ctx = r.ctx.as_ref().map(|c| arena.build(c));
                rules.push(CRule {
                    id: r.id,
                    kind: r.kind.clone(),
                    ctx,
                });
            }
            let dfa = LazyDfa::new(&arena, roots);
            sets.push(CSet { rules, dfa });
        }
        Compiled {
            arena,
            sets,
            named: flat.named,
            classes,
            steps: 0,
            step_cap: u64::MAX,
            capped: false,
        }
    }

    fn ctx_ok(&mut self, ctx: Id, chars: &[char], mut pos: usize) -> bool {
        let n = chars.len();
        let mut node = ctx;
        loop {
            if self.arena.nullable(node) {
                return true;
            }
            if node == EMPTY {
                return false;
            }
            let sym = if pos < n {
                self.arena.alphabet.cell_of(chars[pos])
            } else if pos == n {
                self.arena.alphabet.eoi()
            } else {
                return false;
            };
            node = self.arena.deriv(node, sym);
            pos += 1;
            self.steps += 1;
            if self.steps >= self.step_cap {
                self.capped = true;
                return false;
            }
        }
    }
}

impl Matcher for Compiled {
    fn n_sets(&self) -> usize {
        self.sets.len()
    }

    fn named(&self) -> bool {
        self.named
    }
    fn gave_up(&self) -> bool {
        self.capped
    }

    fn rule(&self, set: usize, idx: usize) -> (u32, Kind) {
        let r = &self.sets[set].rules[idx];
        (r.id, r.kind.clone())
    }

    fn scan(&mut self, set: usize, chars: &[char], p: usize) -> Scan {
        let n = chars.len();
        let eoi = self.arena.alphabet.eoi();
        let mut cur = 0u32;
        let mut i = p;
        let mut best: Option<(usize, usize)> = None;
        let mut ctx_rejected = false;
        let mut tie = false;
        loop {
            // The initial state of a rule set always reads a symbol; later states read one only
            // if some rule can still be extended.
            if i != p && !self.sets[set].dfa.state(cur).can_step {
                break;
            }
            let sym = if i < n {
                self.arena.alphabet.cell_of(chars[i])
            } else if i == n {
                eoi
            } else {
                break;
            };
            let nxt = {
                let Compiled { arena, sets, .. } = self;
                sets[set].dfa.step(arena, cur, sym)
            };
            self.steps += 1;
            if self.steps >= self.step_cap {
                self.capped = true;
                break;
            }
            i += 1;
            if self.sets[set].dfa.state(nxt).dead {
                break;
            }
            cur = nxt;
            let acc: Vec<u32> = self.sets[set].dfa.state(cur).accepting.clone();
            let mut chosen = None;
            let mut n_ok = 0;
            for k in acc {
                let ok = match self.sets[set].rules[k as usize].ctx {
                    None => true,
                    Some(c) => self.ctx_ok(c, chars, i.min(n)),
                };
                if ok {
                    n_ok += 1;
                    if chosen.is_none() {
                        chosen = Some(k as usize);
                    }
                } else {
                    ctx_rejected = true;
                }
            }
            if let Some(k) = chosen {
                best = Some((i, k));
                tie = n_ok > 1;
            }
        }
        let rewound = match best {
            Some((e, _)) => i > e,
            None => false,
        };
        Scan {
            best,
            examined: i,
            rewound,
            ctx_rejected,
            tie,
        }
    }
}

// ---------------------------------------------------------------------------------------------
// Locations

pub fn char_width(c: char) -> u32 {
    UnicodeWidthChar::width(c).unwrap_or(1) as u32
}

/// `Loc` of every character index 0..=n, recomputed from the beginning of the input.
pub fn loc_table(chars: &[char]) -> Vec<Loc> {
    let mut v = Vec::with_capacity(chars.len() + 1);
    let mut l = Loc::default();
    v.push(l);
    for &c in chars {
        l.byte += c.len_utf8() as u32;
        if c == '\n' {
            l.line += 1;
            l.col = 0;
        } else if c == '\t' {
            l.col += 4;
        } else {
            l.col += char_width(c);
        }
        v.push(l);
    }
    v
}

// ---------------------------------------------------------------------------------------------
// The lexer model

/// Classification of what happened in a case; used for non-triviality counting and reporting.
#[derive(Debug, Clone, Default, PartialEq, Eq)]
pub struct Facts {
    pub rewinds: u32,
    pub rewind_at_eoi: u32,
    pub ties: u32,
    pub ctx_rejected: u32,
    pub switches: u32,
    pub distinct_nonzero_sets: u32,
    pub tokens_after_last_switch: u32,
    pub invalid: u32,
    pub invalid_in_non_init: u32,
    pub tokens_after_invalid: u32,
    pub custom: u32,
    pub continues: u32,
    pub resets: u32,
    pub accumulated_token: u32,
    pub eoi_matches: u32,
    pub eoi_error_non_init: u32,
    pub ended_in_non_init: bool,
    pub error_loc_differs: u32,
    pub actions: u32,
    pub items: u32,
    /// The first InvalidToken was raised by an attempt that read end-of-input (the stream ends
    /// right after it).
    pub first_invalid_at_eoi: bool,
}

#[derive(Debug, Clone)]
pub struct ModelOut {
    pub trace: Trace,
    pub facts: Facts,
    /// For every item: (rule set active when it was produced, start char idx, end char idx).
    pub item_meta: Vec<(usize, usize, usize)>,
}

pub fn run_model<M: Matcher>(m: &mut M, case: &Case) -> ModelOut {
    let chars: Vec<char> = case.input.chars().collect();
    let n = chars.len();
    let locs = loc_table(&chars);
    let byte_of: Vec<usize> = {
        let mut v = Vec::with_capacity(n + 1);
        let mut b = 0;
        v.push(0);
        for c in &chars {
            b += c.len_utf8();
            v.push(b);
        }
        v
    };
    let use_match = case.ctor.is_str();
    let named = m.named();
    let n_sets = m.n_sets() as u32;

    let mut items: Vec<Item> = vec![];
    let mut item_meta = vec![];
    let mut log: Vec<LogEntry> = vec![];
    let mut facts = Facts::default();
    let mut seen_sets = std::collections::BTreeSet::new();

    let mut p = 0usize; // scan position (symbols)
    let mut s = 0usize; // start of the current (accumulated) match
    let mut set = 0usize;
    let mut script_pos = 0usize;
    let mut after_invalid = false;

    loop {
        let sc = m.scan(set, &chars, p);
        if m.gave_up() {
            break;
        }
        match sc.best {
            Some((e, k)) => {
                let end = e.min(n);
                if sc.rewound {
                    facts.rewinds += 1;
                    if sc.examined == n + 1 {
                        facts.rewind_at_eoi += 1;
                    }
                }
                if sc.tie {
                    facts.ties += 1;
                }
                if sc.ctx_rejected {
                    facts.ctx_rejected += 1;
                }
                if e == n + 1 {
                    facts.eoi_matches += 1;
                }
                let (id, kind) = m.rule(set, k);
                if kind.logged() {
                    facts.actions += 1;
                    log.push(LogEntry {
                        item_idx: items.len() as u32,
                        rule: id,
                        start: locs[s],
                        end: locs[end],
                        text: if use_match {
                            Some(case.input[byte_of[s]..byte_of[end]].to_string())
                        } else {
                            None
                        },
                        peek: chars.get(end).copied(),
                    });
                }
                // Decision of the action.
                let dec = match &kind {
                    Kind::Skip => Dec::ResetCont,
                    Kind::Simple | Kind::Ret | Kind::FOk => Dec::Ret,
                    Kind::Cont => Dec::Cont,
                    Kind::RCont => Dec::ResetCont,
                    Kind::Sw(j) => Dec::Switch(*j),
                    Kind::SwRet(j) => Dec::SwitchRet(*j),
                    Kind::FErr(x) => Dec::Err(*x),
                    Kind::Script | Kind::FScript => {
                        let d = case.script.get(script_pos).copied().unwrap_or(Dec::Ret);
                        script_pos += 1;
                        let d = if !kind.fallible() {
                            match d {
                                Dec::Err(_) => Dec::Ret,
                                d => d,
                            }
                        } else {
                            d
                        };
                        if named {
                            d
                        } else {
                            match d {
                                Dec::Switch(_) => Dec::Cont,
                                Dec::SwitchRet(_) => Dec::Ret,
                                Dec::ResetSwitch(_) => Dec::ResetCont,
                                d => d,
                            }
                        }
                    }
                };
                let cur_set = set;
                let (reset_first, emit_tok, switch_to, err) = match dec {
                    Dec::Ret => (false, true, None, None),
                    Dec::Cont => {
                        facts.continues += 1;
                        (false, false, None, None)
                    }
                    Dec::ResetCont => (true, false, None, None),
                    Dec::Switch(j) => (false, false, Some(j), None),
                    Dec::SwitchRet(j) => (false, true, Some(j), None),
                    Dec::ResetRet => (true, true, None, None),
                    Dec::ResetSwitch(j) => (true, false, Some(j), None),
                    // a nonce with a non-zero top byte also names a rule set (named lexers only):
                    // `switch_and_return(set, Err(..))`
                    Dec::Err(x) if x >> 24 != 0 && named => (false, false, Some((x >> 24) - 1), Some(x)),
                    Dec::Err(x) => (false, false, None, Some(x)),
                };
                if reset_first {
                    facts.resets += 1;
                    s = end;
                    if kind.logged() {
                        // what the handle reports right after reset_match(): an empty match at
                        // the current position
                        log.push(LogEntry {
                            item_idx: items.len() as u32,
                            rule: id | proto::POST_RESET,
                            start: locs[end],
                            end: locs[end],
                            text: if use_match { Some(String::new()) } else { None },
                            peek: chars.get(end).copied(),
                        });
                    }
                }
                if let Some(j) = switch_to {
                    set = (j % n_sets) as usize;
                    facts.switches += 1;
                    facts.tokens_after_last_switch = 0;
                    if set != 0 {
                        seen_sets.insert(set);
                    }
                }
                if emit_tok {
                    if s < p {
                        facts.accumulated_token += 1;
                    }
                    items.push(Item::Tok {
                        start: locs[s],
                        tok: id,
                        end: locs[end],
                    });
                    item_meta.push((cur_set, s, end));
                    if after_invalid {
                        facts.tokens_after_invalid += 1;
                    }
                    facts.tokens_after_last_switch += 1;
                    s = end;
                }
                if let Some(x) = err {
                    facts.custom += 1;
                    if s < p {
                        facts.error_loc_differs += 1;
                    }
                    items.push(Item::Custom {
                        nonce: x,
                        rule: id,
                        loc: locs[s],
                    });
                    item_meta.push((cur_set, s, end));
                    s = end;
                }
                p = e;
                if p == n + 1 {
                    break;
                }
            }
            None => {
                if p == n {
                    // Lexeme boundary at end of input, EOI pending: Init ends the stream, any
                    // other rule set reports an error (no `$` rule matched).
                    if set != 0 {
                        if facts.invalid == 0 {
                            facts.first_invalid_at_eoi = true;
                        }
                        facts.invalid += 1;
                        facts.invalid_in_non_init += 1;
                        facts.eoi_error_non_init += 1;
                        if s < p {
                            facts.error_loc_differs += 1;
                        }
                        items.push(Item::Invalid { loc: locs[s] });
                        item_meta.push((set, s, n));
                        facts.ended_in_non_init = true;
                    }
                    break;
                }
                if facts.invalid == 0 && sc.examined == n + 1 {
                    facts.first_invalid_at_eoi = true;
                }
                facts.invalid += 1;
                if set != 0 {
                    facts.invalid_in_non_init += 1;
                }
                if s < p || sc.examined > p + 1 {
                    facts.error_loc_differs += 1;
                }
                items.push(Item::Invalid { loc: locs[s] });
                item_meta.push((set, s, sc.examined.min(n)));
                after_invalid = true;
                facts.tokens_after_invalid = 0;
                set = 0;
                if sc.examined == n + 1 {
                    // EOI was read during the failed attempt: it has been acted upon.
                    break;
                }
                p = sc.examined;
                s = p;
            }
        }
    }
    facts.distinct_nonzero_sets = seen_sets.len() as u32;
    facts.items = items.len() as u32;
    if set != 0 {
        facts.ended_in_non_init = true;
    }

    let a = Run {
        items,
        log,
        after_none: 0,
        runaway: false,
    };
    let b = case.clone_at.map(|k| {
        let k = (k as usize).min(a.items.len());
        Run {
            items: a.items[k..].to_vec(),
            log: a.log.clone(),
            after_none: 0,
            runaway: false,
        }
    });
    ModelOut {
        trace: Trace { a, b, panic: None },
        facts,
        item_meta,
    }
}
