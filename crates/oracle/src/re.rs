//! Regex syntax trees (mirroring the documented lexgen syntax) and their printing.

use crate::cls::{builtin_cls, Cls};
use serde::{Deserialize, Serialize};
use std::collections::BTreeMap;

#[derive(Clone, Debug, PartialEq, Eq, Hash, Serialize, Deserialize, PartialOrd, Ord)]
pub enum SetItem {
    C(char),
    R(char, char),
}

#[derive(Clone, Debug, PartialEq, Eq, Hash, Serialize, Deserialize, PartialOrd, Ord)]
pub enum Re {
    Char(char),
    Str(String),
    Set(Vec<SetItem>),
    Any,
    Eoi,
    Star(Box<Re>),
    Plus(Box<Re>),
    Opt(Box<Re>),
    Cat(Box<Re>, Box<Re>),
    Alt(Box<Re>, Box<Re>),
    Diff(Box<Re>, Box<Re>),
    Builtin(String),
    Var(String),
}

pub type Env = BTreeMap<String, Re>;

pub fn cat(a: Re, b: Re) -> Re {
    Re::Cat(Box::new(a), Box::new(b))
}
pub fn alt(a: Re, b: Re) -> Re {
    Re::Alt(Box::new(a), Box::new(b))
}
pub fn star(a: Re) -> Re {
    Re::Star(Box::new(a))
}
pub fn plus(a: Re) -> Re {
    Re::Plus(Box::new(a))
}
pub fn opt(a: Re) -> Re {
    Re::Opt(Box::new(a))
}
pub fn diff(a: Re, b: Re) -> Re {
    Re::Diff(Box::new(a), Box::new(b))
}

impl Re {
    pub fn size(&self) -> usize {
        match self {
            Re::Star(a) | Re::Plus(a) | Re::Opt(a) => 1 + a.size(),
            Re::Cat(a, b) | Re::Alt(a, b) | Re::Diff(a, b) => 1 + a.size() + b.size(),
            _ => 1,
        }
    }

    pub fn depth(&self) -> usize {
        match self {
            Re::Star(a) | Re::Plus(a) | Re::Opt(a) => 1 + a.depth(),
            Re::Cat(a, b) | Re::Alt(a, b) | Re::Diff(a, b) => 1 + a.depth().max(b.depth()),
            _ => 1,
        }
    }

    pub fn n_ops(&self) -> usize {
        match self {
            Re::Star(a) | Re::Plus(a) | Re::Opt(a) => 1 + a.n_ops(),
            Re::Cat(a, b) | Re::Alt(a, b) | Re::Diff(a, b) => 1 + a.n_ops() + b.n_ops(),
            _ => 0,
        }
    }

    pub fn has_eoi(&self) -> bool {
        match self {
            Re::Eoi => true,
            Re::Star(a) | Re::Plus(a) | Re::Opt(a) => a.has_eoi(),
            Re::Cat(a, b) | Re::Alt(a, b) | Re::Diff(a, b) => a.has_eoi() || b.has_eoi(),
            _ => false,
        }
    }

    pub fn has_var(&self) -> bool {
        match self {
            Re::Var(_) => true,
            Re::Star(a) | Re::Plus(a) | Re::Opt(a) => a.has_var(),
            Re::Cat(a, b) | Re::Alt(a, b) | Re::Diff(a, b) => a.has_var() || b.has_var(),
            _ => false,
        }
    }

    /// Replaces every variable by its binding (recursively). `None` if a variable is unbound.
    pub fn expand(&self, env: &Env) -> Option<Re> {
        Some(match self {
            Re::Var(x) => env.get(x)?.expand(env)?,
            Re::Star(a) => star(a.expand(env)?),
            Re::Plus(a) => plus(a.expand(env)?),
            Re::Opt(a) => opt(a.expand(env)?),
            Re::Cat(a, b) => cat(a.expand(env)?, b.expand(env)?),
            Re::Alt(a, b) => alt(a.expand(env)?, b.expand(env)?),
            Re::Diff(a, b) => diff(a.expand(env)?, b.expand(env)?),
            other => other.clone(),
        })
    }

    /// The character class denoted by a class expression (no variables), or `None` if the
    /// expression is not a class (string, repetition, concatenation, `$`).
    pub fn class(&self) -> Option<Cls> {
        Some(match self {
            Re::Char(c) => Cls::single(*c),
            Re::Set(items) => Cls::from_ranges(
                items
                    .iter()
                    .map(|i| match *i {
                        SetItem::C(c) => (c as u32, c as u32),
                        SetItem::R(a, b) => (a as u32, b as u32),
                    })
                    .collect(),
            ),
            Re::Any => Cls::any(),
            Re::Builtin(n) => builtin_cls(n)?.clone(),
            Re::Alt(a, b) => a.class()?.union(&b.class()?),
            Re::Diff(a, b) => a.class()?.minus(&b.class()?),
            _ => return None,
        })
    }

    /// Can the regex match the empty string (`$` counts as a symbol, so it is not nullable)?
    pub fn nullable(&self) -> bool {
        match self {
            Re::Char(_) | Re::Set(_) | Re::Any | Re::Eoi | Re::Diff(..) | Re::Builtin(_) => false,
            Re::Str(s) => s.is_empty(),
            Re::Star(_) | Re::Opt(_) => true,
            Re::Plus(a) => a.nullable(),
            Re::Cat(a, b) => a.nullable() && b.nullable(),
            Re::Alt(a, b) => a.nullable() || b.nullable(),
            Re::Var(_) => panic!("nullable on unexpanded variable"),
        }
    }
}

// ---------------------------------------------------------------------------------------------
// Printing

pub fn char_lit(c: char) -> String {
    match c {
        '\'' => "'\\''".to_string(),
        '\\' => "'\\\\'".to_string(),
        '\n' => "'\\n'".to_string(),
        '\t' => "'\\t'".to_string(),
        '\r' => "'\\r'".to_string(),
        c if (c as u32) < 0x20 || c as u32 == 0x7f || !is_plain(c) => {
            format!("'\\u{{{:x}}}'", c as u32)
        }
        c => format!("'{}'", c),
    }
}

fn is_plain(c: char) -> bool {
    // Printable ASCII is written literally, everything else as an escape (zero-width and
    // wide characters included) so that the source text is unambiguous.
    (' '..='~').contains(&c)
}

pub fn str_lit(s: &str) -> String {
    let mut o = String::from("\"");
    for c in s.chars() {
        match c {
            '"' => o.push_str("\\\""),
            '\\' => o.push_str("\\\\"),
            '\n' => o.push_str("\\n"),
            '\t' => o.push_str("\\t"),
            '\r' => o.push_str("\\r"),
            c if !is_plain(c) => o.push_str(&format!("\\u{{{:x}}}", c as u32)),
            c => o.push(c),
        }
    }
    o.push('"');
    o
}

fn set_lit(items: &[SetItem]) -> String {
    let mut o = String::from("[");
    for (i, it) in items.iter().enumerate() {
        if i > 0 {
            o.push(' ');
        }
        match it {
            SetItem::C(c) => o.push_str(&char_lit(*c)),
            SetItem::R(a, b) => {
                o.push_str(&char_lit(*a));
                o.push('-');
                o.push_str(&char_lit(*b));
            }
        }
    }
    o.push(']');
    o
}

#[derive(Clone, Copy, Debug, PartialEq, Eq)]
pub enum Paren {
    /// Every compound sub-expression is parenthesised.
    Full,
    /// The fewest parentheses the documented grammar allows.
    Minimal,
    /// Minimal plus redundant parentheses chosen by the bits of the given number.
    Redundant(u64),
}

struct Printer {
    mode: Paren,
    bit: u32,
}

impl Printer {
    fn coin(&mut self) -> bool {
        match self.mode {
            Paren::Redundant(bits) => {
                let b = (bits >> (self.bit % 64)) & 1 == 1;
                self.bit += 1;
                b
            }
            _ => false,
        }
    }

    /// Levels: 0 alternation, 1 concatenation, 2 postfix, 3 difference, 4 atom.
    fn level(re: &Re) -> u8 {
        match re {
            Re::Alt(..) => 0,
            Re::Cat(..) => 1,
            Re::Star(_) | Re::Plus(_) | Re::Opt(_) => 2,
            Re::Diff(..) => 3,
            _ => 4,
        }
    }

    fn p(&mut self, re: &Re, min_level: u8) -> String {
        let lvl = Self::level(re);
        let body = match re {
            Re::Char(c) => char_lit(*c),
            Re::Str(s) => str_lit(s),
            Re::Set(items) => set_lit(items),
            Re::Any => "_".to_string(),
            Re::Eoi => "$".to_string(),
            Re::Builtin(n) => format!("$${}", n),
            Re::Var(n) => format!("${}", n),
            Re::Star(a) => format!("{}*", self.p(a, 2)),
            Re::Plus(a) => format!("{}+", self.p(a, 2)),
            Re::Opt(a) => format!("{}?", self.p(a, 2)),
            Re::Cat(a, b) => {
                let l = self.p(a, 1);
                let r = self.p(b, 2);
                format!("{} {}", l, r)
            }
            Re::Alt(a, b) => {
                let l = self.p(a, 0);
                let r = self.p(b, 1);
                format!("{} | {}", l, r)
            }
            Re::Diff(a, b) => {
                let l = self.p(a, 3);
                let r = self.p(b, 4);
                format!("{} # {}", l, r)
            }
        };
        let need = match self.mode {
            Paren::Full => lvl < 4,
            _ => lvl < min_level,
        };
        if need || self.coin() {
            format!("({})", body)
        } else {
            body
        }
    }
}

pub fn print_re(re: &Re, mode: Paren) -> String {
    let mut p = Printer { mode, bit: 0 };
    match mode {
        Paren::Full => {
            // No parentheses around the whole expression: `(re)` at the top is legal but noisy.
            let s = p.p(re, 0);
            if s.starts_with('(') && s.ends_with(')') && Printer::level(re) < 4 {
                s[1..s.len() - 1].to_string()
            } else {
                s
            }
        }
        _ => p.p(re, 0),
    }
}

/// Canonical S-expression, used to compare with the parser's output (C16).
pub fn sexp(re: &Re) -> String {
    match re {
        Re::Char(c) => format!("(char {})", *c as u32),
        Re::Str(s) => format!(
            "(str{})",
            s.chars().map(|c| format!(" {}", c as u32)).collect::<String>()
        ),
        Re::Set(items) => format!(
            "(set{})",
            items
                .iter()
                .map(|i| match i {
                    SetItem::C(c) => format!(" {}", *c as u32),
                    SetItem::R(a, b) => format!(" {}-{}", *a as u32, *b as u32),
                })
                .collect::<String>()
        ),
        Re::Any => "any".to_string(),
        Re::Eoi => "eoi".to_string(),
        Re::Builtin(n) => format!("(builtin {})", n),
        Re::Var(n) => format!("(var {})", n),
        Re::Star(a) => format!("(star {})", sexp(a)),
        Re::Plus(a) => format!("(plus {})", sexp(a)),
        Re::Opt(a) => format!("(opt {})", sexp(a)),
        Re::Cat(a, b) => format!("(cat {} {})", sexp(a), sexp(b)),
        Re::Alt(a, b) => format!("(alt {} {})", sexp(a), sexp(b)),
        Re::Diff(a, b) => format!("(diff {} {})", sexp(a), sexp(b)),
    }
}
