//! Wire protocol between the orchestrator and the generated "lexer server" binaries.
//! No dependencies on purpose: this crate is compiled into every generated crate.

use std::io::{self, Read, Write};

#[derive(Debug, Clone, Copy, PartialEq, Eq, Hash, Default, PartialOrd, Ord)]
pub struct Loc {
    pub line: u32,
    pub col: u32,
    pub byte: u32,
}

/// How the lexer under test is constructed.
#[derive(Debug, Clone, Copy, PartialEq, Eq, Hash)]
pub enum Ctor {
    New = 0,
    NewWithState = 1,
    FromIterVec = 2,
    FromIterVecWithState = 3,
    FromIterChars = 4,
    FromIterCounterWithState = 5,
}

impl Ctor {
    pub const ALL: [Ctor; 6] = [
        Ctor::New,
        Ctor::NewWithState,
        Ctor::FromIterVec,
        Ctor::FromIterVecWithState,
        Ctor::FromIterChars,
        Ctor::FromIterCounterWithState,
    ];
    pub fn from_u8(x: u8) -> Ctor {
        Ctor::ALL[(x as usize) % 6]
    }
    pub fn is_str(self) -> bool {
        matches!(self, Ctor::New | Ctor::NewWithState)
    }
}

/// A decision taken by a scripted semantic action.
#[derive(Debug, Clone, Copy, PartialEq, Eq, Hash)]
pub enum Dec {
    Ret,
    Cont,
    ResetCont,
    Switch(u32),
    SwitchRet(u32),
    ResetRet,
    ResetSwitch(u32),
    /// Only meaningful in `=?` rules; infallible rules treat it as `Ret`.
    Err(u32),
}

#[derive(Debug, Clone, PartialEq, Eq, Hash)]
pub struct Case {
    pub ctor: Ctor,
    pub input: String,
    pub script: Vec<Dec>,
    /// Clone the lexer after this many items were produced by the original.
    pub clone_at: Option<u32>,
    /// Interleaving of original (bit 0) and clone (bit 1) after the clone point, LSB first,
    /// wrapping around after 64 steps.
    pub sched: u64,
    /// How many extra `next()` calls are made after the first `None`.
    pub extra_nexts: u8,
}

impl Case {
    pub fn simple(input: &str) -> Case {
        Case {
            ctor: Ctor::NewWithState,
            input: input.to_string(),
            script: vec![],
            clone_at: None,
            sched: 0,
            extra_nexts: 2,
        }
    }
}

#[derive(Debug, Clone, PartialEq, Eq, Hash)]
pub enum Item {
    Tok { start: Loc, tok: u32, end: Loc },
    Invalid { loc: Loc },
    Custom { nonce: u32, rule: u32, loc: Loc },
}

/// Flag in `LogEntry::rule`: the entry records what the handle reports (match_loc, match_, peek)
/// right AFTER `reset_match()` inside the action of the rule whose id is in the low bits.
pub const POST_RESET: u32 = 0x4000_0000;

#[derive(Debug, Clone, PartialEq, Eq, Hash)]
pub struct LogEntry {
    /// Number of items the lexer had produced when the action ran.
    pub item_idx: u32,
    pub rule: u32,
    pub start: Loc,
    pub end: Loc,
    /// `match_()`, when the constructor allows it.
    pub text: Option<String>,
    pub peek: Option<char>,
}

#[derive(Debug, Clone, PartialEq, Eq, Default)]
pub struct Run {
    pub items: Vec<Item>,
    pub log: Vec<LogEntry>,
    /// `next()` calls that returned `Some` after a `None` was seen.
    pub after_none: u32,
    /// The driver gave up because more items were produced than characters + 2.
    pub runaway: bool,
}

#[derive(Debug, Clone, PartialEq, Eq, Default)]
pub struct Trace {
    pub a: Run,
    /// The clone's run (its items start at the clone point; its log includes the cloned prefix).
    pub b: Option<Run>,
    pub panic: Option<String>,
}

// ---------------------------------------------------------------------------------------------
// Encoding

pub struct W(pub Vec<u8>);

impl W {
    pub fn new() -> W {
        W(Vec::new())
    }
    pub fn u8(&mut self, x: u8) {
        self.0.push(x)
    }
    pub fn u32(&mut self, x: u32) {
        self.0.extend_from_slice(&x.to_le_bytes())
    }
    pub fn u64(&mut self, x: u64) {
        self.0.extend_from_slice(&x.to_le_bytes())
    }
    pub fn str(&mut self, s: &str) {
        self.u32(s.len() as u32);
        self.0.extend_from_slice(s.as_bytes());
    }
    pub fn loc(&mut self, l: Loc) {
        self.u32(l.line);
        self.u32(l.col);
        self.u32(l.byte);
    }
}

impl Default for W {
    fn default() -> Self {
        W::new()
    }
}

pub struct R<'a> {
    pub b: &'a [u8],
    pub p: usize,
}

impl<'a> R<'a> {
    pub fn new(b: &'a [u8]) -> R<'a> {
        R { b, p: 0 }
    }
    pub fn done(&self) -> bool {
        self.p >= self.b.len()
    }
    pub fn u8(&mut self) -> u8 {
        let x = self.b[self.p];
        self.p += 1;
        x
    }
    pub fn u32(&mut self) -> u32 {
        let x = u32::from_le_bytes(self.b[self.p..self.p + 4].try_into().unwrap());
        self.p += 4;
        x
    }
    pub fn u64(&mut self) -> u64 {
        let x = u64::from_le_bytes(self.b[self.p..self.p + 8].try_into().unwrap());
        self.p += 8;
        x
    }
    pub fn str(&mut self) -> String {
        let n = self.u32() as usize;
        let s = std::str::from_utf8(&self.b[self.p..self.p + n])
            .expect("utf8")
            .to_string();
        self.p += n;
        s
    }
    pub fn loc(&mut self) -> Loc {
        Loc {
            line: self.u32(),
            col: self.u32(),
            byte: self.u32(),
        }
    }
}

pub fn enc_dec(w: &mut W, d: &Dec) {
    match *d {
        Dec::Ret => {
            w.u8(0);
            w.u32(0)
        }
        Dec::Cont => {
            w.u8(1);
            w.u32(0)
        }
        Dec::ResetCont => {
            w.u8(2);
            w.u32(0)
        }
        Dec::Switch(k) => {
            w.u8(3);
            w.u32(k)
        }
        Dec::SwitchRet(k) => {
            w.u8(4);
            w.u32(k)
        }
        Dec::ResetRet => {
            w.u8(5);
            w.u32(0)
        }
        Dec::ResetSwitch(k) => {
            w.u8(6);
            w.u32(k)
        }
        Dec::Err(p) => {
            w.u8(7);
            w.u32(p)
        }
    }
}

pub fn dec_dec(r: &mut R) -> Dec {
    let t = r.u8();
    let a = r.u32();
    match t {
        0 => Dec::Ret,
        1 => Dec::Cont,
        2 => Dec::ResetCont,
        3 => Dec::Switch(a),
        4 => Dec::SwitchRet(a),
        5 => Dec::ResetRet,
        6 => Dec::ResetSwitch(a),
        _ => Dec::Err(a),
    }
}

pub fn enc_case(w: &mut W, c: &Case) {
    w.u8(c.ctor as u8);
    w.str(&c.input);
    w.u32(c.script.len() as u32);
    for d in &c.script {
        enc_dec(w, d);
    }
    match c.clone_at {
        None => w.u32(u32::MAX),
        Some(k) => w.u32(k),
    }
    w.u64(c.sched);
    w.u8(c.extra_nexts);
}

pub fn dec_case(r: &mut R) -> Case {
    let ctor = Ctor::from_u8(r.u8());
    let input = r.str();
    let n = r.u32();
    let mut script = Vec::with_capacity(n as usize);
    for _ in 0..n {
        script.push(dec_dec(r));
    }
    let k = r.u32();
    let clone_at = if k == u32::MAX { None } else { Some(k) };
    let sched = r.u64();
    let extra_nexts = r.u8();
    Case {
        ctor,
        input,
        script,
        clone_at,
        sched,
        extra_nexts,
    }
}

fn enc_run(w: &mut W, r: &Run) {
    w.u32(r.items.len() as u32);
    for it in &r.items {
        match it {
            Item::Tok { start, tok, end } => {
                w.u8(0);
                w.loc(*start);
                w.u32(*tok);
                w.loc(*end);
            }
            Item::Invalid { loc } => {
                w.u8(1);
                w.loc(*loc);
            }
            Item::Custom { nonce, rule, loc } => {
                w.u8(2);
                w.u32(*nonce);
                w.u32(*rule);
                w.loc(*loc);
            }
        }
    }
    w.u32(r.log.len() as u32);
    for e in &r.log {
        w.u32(e.item_idx);
        w.u32(e.rule);
        w.loc(e.start);
        w.loc(e.end);
        match &e.text {
            None => w.u8(0),
            Some(t) => {
                w.u8(1);
                w.str(t)
            }
        }
        match e.peek {
            None => w.u32(u32::MAX),
            Some(c) => w.u32(c as u32),
        }
    }
    w.u32(r.after_none);
    w.u8(r.runaway as u8);
}

fn dec_run(r: &mut R) -> Run {
    let n = r.u32();
    let mut items = Vec::with_capacity(n as usize);
    for _ in 0..n {
        items.push(match r.u8() {
            0 => {
                let start = r.loc();
                let tok = r.u32();
                let end = r.loc();
                Item::Tok { start, tok, end }
            }
            1 => Item::Invalid { loc: r.loc() },
            _ => {
                let nonce = r.u32();
                let rule = r.u32();
                let loc = r.loc();
                Item::Custom { nonce, rule, loc }
            }
        });
    }
    let n = r.u32();
    let mut log = Vec::with_capacity(n as usize);
    for _ in 0..n {
        let item_idx = r.u32();
        let rule = r.u32();
        let start = r.loc();
        let end = r.loc();
        let text = if r.u8() == 1 { Some(r.str()) } else { None };
        let p = r.u32();
        let peek = if p == u32::MAX {
            None
        } else {
            char::from_u32(p)
        };
        log.push(LogEntry {
            item_idx,
            rule,
            start,
            end,
            text,
            peek,
        });
    }
    let after_none = r.u32();
    let runaway = r.u8() != 0;
    Run {
        items,
        log,
        after_none,
        runaway,
    }
}

pub fn enc_trace(w: &mut W, t: &Trace) {
    enc_run(w, &t.a);
    match &t.b {
        None => w.u8(0),
        Some(b) => {
            w.u8(1);
            enc_run(w, b)
        }
    }
    match &t.panic {
        None => w.u8(0),
        Some(p) => {
            w.u8(1);
            w.str(p)
        }
    }
}

pub fn dec_trace(r: &mut R) -> Trace {
    let a = dec_run(r);
    let b = if r.u8() == 1 { Some(dec_run(r)) } else { None };
    let panic = if r.u8() == 1 { Some(r.str()) } else { None };
    Trace { a, b, panic }
}

// Framing: [u32 len][payload]

pub fn write_frame<Wr: Write>(w: &mut Wr, payload: &[u8]) -> io::Result<()> {
    w.write_all(&(payload.len() as u32).to_le_bytes())?;
    w.write_all(payload)?;
    w.flush()
}

pub fn read_frame<Rd: Read>(r: &mut Rd) -> io::Result<Option<Vec<u8>>> {
    let mut len = [0u8; 4];
    match r.read_exact(&mut len) {
        Ok(()) => {}
        Err(e) if e.kind() == io::ErrorKind::UnexpectedEof => return Ok(None),
        Err(e) => return Err(e),
    }
    let n = u32::from_le_bytes(len) as usize;
    let mut buf = vec![0u8; n];
    r.read_exact(&mut buf)?;
    Ok(Some(buf))
}

/// A request frame: lexer index followed by cases.
pub fn enc_request(lexer_idx: u32, cases: &[&Case]) -> Vec<u8> {
    let mut w = W::new();
    w.u32(lexer_idx);
    w.u32(cases.len() as u32);
    for c in cases {
        enc_case(&mut w, c);
    }
    w.0
}

pub fn dec_request(b: &[u8]) -> (u32, Vec<Case>) {
    let mut r = R::new(b);
    let idx = r.u32();
    let n = r.u32();
    let mut v = Vec::with_capacity(n as usize);
    for _ in 0..n {
        v.push(dec_case(&mut r));
    }
    (idx, v)
}

pub fn enc_response(traces: &[Trace]) -> Vec<u8> {
    let mut w = W::new();
    w.u32(traces.len() as u32);
    for t in traces {
        enc_trace(&mut w, t);
    }
    w.0
}

pub fn dec_response(b: &[u8]) -> Vec<Trace> {
    let mut r = R::new(b);
    let n = r.u32();
    let mut v = Vec::with_capacity(n as usize);
    for _ in 0..n {
        v.push(dec_trace(&mut r));
    }
    v
}
