//! `verif <ID> quick|thorough` and `verif replay <file>`.

mod enga;
mod genc;
mod pipe;
mod props;
mod server;
mod util;

use util::{infra, Tier};

fn main() {
    let args: Vec<String> = std::env::args().skip(1).collect();
    if args.is_empty() {
        eprintln!("usage: verif <property id> quick|thorough | verif replay <file>");
        std::process::exit(2);
    }
    if args[0] == "replay" {
        let path = args.get(1).unwrap_or_else(|| infra("replay needs a file"));
        let text = std::fs::read_to_string(path).unwrap_or_else(|e| infra(&format!("{}: {}", path, e)));
        let v: serde_json::Value = serde_json::from_str(&text).unwrap_or_else(|e| infra(&format!("{}: {}", path, e)));
        let id = v["property"].as_str().unwrap_or("").to_string();
        for p in props::all_props() {
            if p.id() == id && v["engine"].as_str().map(|e| e.starts_with('A')).unwrap_or(false) {
                std::process::exit(enga::replay(p.as_ref(), &v));
            }
        }
        infra(&format!("no replay handler for property {:?}", id));
    }
    let id = args[0].to_uppercase();
    let tier = match args.get(1).map(|s| s.as_str()) {
        Some("thorough") => Tier::Thorough,
        _ => match std::env::var("VERIF_TIER").as_deref() {
            Ok("thorough") if args.get(1).is_none() => Tier::Thorough,
            _ => Tier::Quick,
        },
    };
    for p in props::all_props() {
        if p.id() == id {
            std::process::exit(enga::run(p.as_ref(), tier));
        }
    }
    infra(&format!("unknown property {}", id));
}
