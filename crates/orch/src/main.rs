//! `verif <ID> quick|thorough` and `verif replay <file>`.

mod enga;
mod engb;
mod engc;
mod engd;
mod genc;
mod pipe;
mod props;
mod props2;
mod server;
mod util;

use util::{infra, Tier};

fn main() {
    // A panic of the orchestrator itself (any thread) is a defect of the harness, never a verdict:
    // it is reported as an infrastructure error (exit 2).
    let default_hook = std::panic::take_hook();
    std::panic::set_hook(Box::new(move |info| {
        default_hook(info);
        let msg = format!("INFRA-ERROR: the orchestrator panicked: {}", info);
        eprintln!("{}", msg);
        println!("{}", msg.lines().next().unwrap_or(""));
        std::process::exit(2);
    }));
    let args: Vec<String> = std::env::args().skip(1).collect();
    if args.is_empty() {
        eprintln!("usage: verif <property id> quick|thorough | verif replay <file>");
        std::process::exit(2);
    }
    if args[0] == "replay" {
        let path = args.get(1).unwrap_or_else(|| infra("replay needs a file"));
        let text = std::fs::read_to_string(path).unwrap_or_else(|e| infra(&format!("{}: {}", path, e)));
        let v: serde_json::Value = serde_json::from_str(&text).unwrap_or_else(|e| infra(&format!("{}: {}", path, e)));
        let id = v["property"].as_str().unwrap_or("").to_string();
        if v["engine"].as_str() == Some("B") {
            std::process::exit(engb::replay(&v));
        }
        if v["engine"].as_str() == Some("D") {
            // re-run the saved libFuzzer input against the current tree
            let bytes: Vec<u8> = v["artifact_bytes"].as_array().map(|a| a.iter().map(|x| x.as_u64().unwrap_or(0) as u8).collect()).unwrap_or_default();
            let dir = engd::fuzz_dir("c11");
            let _ = std::fs::create_dir_all(&dir);
            let f = dir.join("replay_input");
            std::fs::write(&f, bytes).unwrap();
            let st = std::process::Command::new("cargo")
                .current_dir(util::verif("fuzz"))
                .args(["+nightly", "fuzz", "run", "-s", "none", "rangemap_ops"])
                .arg(&f)
                .env("CARGO_NET_OFFLINE", "true")
                .status();
            match st {
                Ok(s) if s.success() => {
                    println!("replay: no violation");
                    std::process::exit(0);
                }
                Ok(_) => {
                    println!("VIOLATION property=C11 replay=<given file>");
                    std::process::exit(1);
                }
                Err(e) => infra(&format!("cannot run cargo fuzz: {}", e)),
            }
        }
        if v["engine"].as_str() == Some("C") {
            std::process::exit(engc::replay(&v));
        }
        for p in props::all_props() {
            if p.id() == id && v["engine"].as_str().map(|e| e.starts_with('A')).unwrap_or(false) {
                std::process::exit(enga::replay(p.as_ref(), &v));
            }
        }
        infra(&format!("no replay handler for property {:?}", id));
    }
    if args[0] == "dump-builtin-cls" {
        let mut m = serde_json::Map::new();
        for n in oracle::cls::BUILTIN_NAMES {
            let c = oracle::cls::builtin_cls(n).unwrap();
            m.insert(n.to_string(), serde_json::json!(c.0));
        }
        println!("{}", serde_json::Value::Object(m));
        return;
    }
    let id = args[0].to_uppercase();
    let tier = match args.get(1).map(|s| s.as_str()) {
        Some("thorough") => Tier::Thorough,
        _ => match std::env::var("VERIF_TIER").as_deref() {
            Ok("thorough") if args.get(1).is_none() => Tier::Thorough,
            _ => Tier::Quick,
        },
    };
    // A time budget hit is "inconclusive" (exit 2), never a verdict.
    let max_secs: u64 = std::env::var("VERIF_MAX_SECS")
        .ok()
        .and_then(|s| s.parse().ok())
        .unwrap_or(match tier {
            Tier::Quick => 1500,
            Tier::Thorough => 4 * 3600,
        });
    let idc = id.clone();
    std::thread::spawn(move || {
        std::thread::sleep(std::time::Duration::from_secs(max_secs));
        println!("INFRA-ERROR: {} did not finish within its time budget of {} s: inconclusive", idc, max_secs);
        eprintln!("INFRA-ERROR: {} did not finish within its time budget of {} s: inconclusive", idc, max_secs);
        std::process::exit(2);
    });
    match id.as_str() {
        "C11" => std::process::exit(run_c11(tier)),
        "C12" => std::process::exit(engb::run_c12(tier)),
        "C16" => std::process::exit(engb::run_c16(tier)),
        "C17" => std::process::exit(engb::run_c17(tier)),
        "C13" => std::process::exit(run_c13(tier)),
        "C18" => std::process::exit(engc::run_c18(tier)),
        _ => {}
    }
    for p in props::all_props() {
        if p.id() == id {
            std::process::exit(enga::run(p.as_ref(), tier));
        }
    }
    infra(&format!("unknown property {}", id));
}

/// C11 = part (a) range-map model test (Engine C) + part (b) class expressions through the macro.
fn run_c11(tier: Tier) -> i32 {
    use serde_json::json;
    let (rep_a, n_a) = engc::run_c11a(tier);
    let (mut ev, code_b) = enga::run_collect(&props2::C11b, tier);
    let get = |v: &serde_json::Value, k: &str| v[k].as_u64().unwrap_or(0);
    let ev_b = ev.coverage.get("evaluations").and_then(|x| x.as_u64()).unwrap_or(0);
    let nt_b = ev.coverage.get("distinct_nontrivial").and_then(|x| x.as_u64()).unwrap_or(0);
    let rule_b = ev.coverage.get("rule").and_then(|x| x.as_str()).unwrap_or("").to_string();
    let mut samples = rep_a["samples"].as_array().cloned().unwrap_or_default();
    if let Some(b) = ev.coverage.get("samples").and_then(|x| x.as_array()) {
        samples.extend(b.iter().take(2).cloned());
    }
    ev.set("evaluations", json!(ev_b + get(&rep_a, "evaluations")));
    ev.set("distinct_nontrivial", json!(nt_b + get(&rep_a, "distinct_nontrivial")));
    ev.set("part_a_rangemap", json!({
        "evaluations": rep_a["evaluations"], "distinct_nontrivial": rep_a["distinct_nontrivial"],
        "exhaustive_sequences": rep_a["exhaustive_sequences"], "exhaustive_universe_max": rep_a["exhaustive_universe_max"],
        "random_sequences": rep_a["random_sequences"],
    }));
    ev.set("part_b_class_expressions", json!({"evaluations": ev_b, "distinct_nontrivial": nt_b}));
    ev.set("samples", json!(samples));
    ev.set("rule", json!(format!("part (a): operation sequences on lexgen's RangeMap<BTreeSet<u8>> (compiled unchanged via #[path]) against a point-wise model — EXHAUSTIVELY every sequence of up to two inserts followed by one insert / insert_ranges / remove_ranges (lists of 1-2 sorted disjoint ranges) over the universe 0..=5 (quick) or 0..=7 (thorough), and random sequences of up to 12 operations over the whole scalar range with end points re-anchored on earlier boundaries +-1, 0, the surrogate-gap edges and char::MAX, shrunk by proptest; after EVERY operation: pieces sorted, disjoint, start <= end <= char::MAX, values non-empty, and point-wise equal to the model at every point (small universe) or at every boundary +-1 (large). Non-trivial = the operation overlapped at least two existing pieces or removed a range equal to a piece. {}", rule_b)));
    ev.set("exhaustive", json!(true));
    ev.set("exhaustive_note", json!("exhaustive for part (a)'s bounded family only"));
    let mut n_a = n_a;
    if tier == Tier::Thorough && n_a == 0 {
        let (note, execs, crash) = engd::rangemap_stage(600_000, 900);
        ev.set("coverage_guided_stage", json!({"target": "rangemap_ops", "note": note, "executions": execs, "artifact": crash.is_some()}));
        if let Some((msg, bytes)) = crash {
            let body = json!({"property": "C11", "engine": "D", "part": "rangemap_ops", "seed": util::seed() as i64, "reason": msg, "artifact_bytes": bytes});
            let path = util::write_replay("C11", &body);
            util::report_violation("C11", &path, &pipe::trunc(&msg, 400));
            n_a += 1;
        }
    }
    ev.violations += n_a as i64;
    ev.write();
    if n_a > 0 || code_b == 1 {
        1
    } else {
        code_b
    }
}

fn run_c13(tier: Tier) -> i32 {
    use serde_json::json;
    let (mut ev, code) = enga::run_collect(&props2::C13, tier);
    let seen = props2::DRIFT_SEEN.lock().unwrap().clone();
    let known = util::known_findings("C13");
    for (name, n) in &seen {
        let listed = known.iter().any(|k| k.signature == format!("builtin={}", name));
        if listed {
            println!(
                "KNOWN-FINDING: property=C13 $${} differs from its Rust predicate on {} code points, all inside the ranges recorded in known/C13_drift.json (Unicode-version drift of the table)",
                name, n
            );
        } else {
            // drift ranges on file but no known-findings entry: treat as violation
            println!("VIOLATION property=C13 replay=/verif/known/C13_drift.json");
            println!("  $${} drifts on {} code points but is not listed in known_findings.json", name, n);
            ev.violations += 1;
            ev.set("known_findings_seen", json!(seen));
            ev.write();
            return 1;
        }
    }
    ev.set("known_findings_seen", json!(seen));
    ev.set("code_points_per_definition", json!(1112064));
    ev.set("exhaustive", json!(true));
    ev.set("exhaustive_note", json!("exhaustive in the code-point dimension: every definition is run over all 1,112,064 scalar values; the set of definitions (names x shapes x windows) is complete in the thorough tier and sampled for windows in the quick tier"));
    ev.write();
    code
}
