//! Client of the Engine B worker (the macro pipeline in-process), with per-request timeout.

use crate::util::{build_rd, infra, rd_bin};
use serde_json::{json, Value};
use std::io::{BufRead, BufReader, Write};
use std::process::{Child, ChildStdin, Command, Stdio};
use std::sync::mpsc::{channel, Receiver, RecvTimeoutError};
use std::time::{Duration, Instant};

#[derive(Debug, Clone, PartialEq)]
pub enum Expand {
    Ok { hash: String, len: usize, code: Option<String> },
    CompileError(String),
    Panic(String),
    LexError(String),
    Timeout(f64),
    Died,
    Nondeterministic(String),
    /// The macro returned tokens that are not syntactically valid Rust.
    Unparsable(String),
}

impl Expand {
    pub fn is_ok(&self) -> bool {
        matches!(self, Expand::Ok { .. })
    }
    pub fn rejected(&self) -> bool {
        matches!(self, Expand::CompileError(_) | Expand::Panic(_) | Expand::LexError(_))
    }
    pub fn short(&self) -> String {
        match self {
            Expand::Ok { hash, len, .. } => format!("ok hash={} len={}", hash, len),
            Expand::CompileError(m) => format!("compile_error: {}", trunc(m, 200)),
            Expand::Panic(m) => format!("panic: {}", trunc(m, 200)),
            Expand::LexError(m) => format!("lex_error: {}", trunc(m, 200)),
            Expand::Timeout(s) => format!("timeout after {:.1}s", s),
            Expand::Died => "worker died (memory limit or abort)".to_string(),
            Expand::Nondeterministic(m) => format!("nondeterministic: {}", m),
            Expand::Unparsable(m) => format!("unparsable output: {}", trunc(m, 300)),
        }
    }
}

pub fn trunc(s: &str, n: usize) -> String {
    if s.chars().count() <= n {
        s.to_string()
    } else {
        s.chars().take(n).collect::<String>() + "…"
    }
}

pub struct Worker {
    child: Option<(Child, ChildStdin, Receiver<String>)>,
}

static PLAIN: std::sync::atomic::AtomicBool = std::sync::atomic::AtomicBool::new(false);

/// Selects the pipeline binary for workers spawned from now on: the default one (debug assertions
/// and overflow checks on) or the `plain` build without them.
pub fn use_plain_build(on: bool) {
    PLAIN.store(on, std::sync::atomic::Ordering::SeqCst);
}

/// Builds the pipeline harness with profile `plain` (no debug assertions, no overflow checks).
pub fn ensure_plain_built() {
    let out = crate::util::cargo_rd(&["build", "-p", "pipeline", "--quiet", "--profile", "plain"])
        .stdout(Stdio::piped())
        .stderr(Stdio::piped())
        .output()
        .unwrap_or_else(|e| infra(&format!("cannot run cargo: {}", e)));
    if !out.status.success() {
        infra(&format!("cannot build the pipeline harness with profile plain:\n{}", String::from_utf8_lossy(&out.stderr)));
    }
}

pub fn ensure_built() {
    if let Err(e) = build_rd("pipeline", true) {
        infra(&format!(
            "cannot build the in-process pipeline harness against /repo/crates/lexgen/src:\n{}",
            e
        ));
    }
}

impl Worker {
    pub fn new() -> Worker {
        Worker { child: None }
    }

    fn spawn(&mut self) {
        let bin = if PLAIN.load(std::sync::atomic::Ordering::SeqCst) {
            std::path::Path::new(crate::util::RD).join("target/plain/pipeline")
        } else {
            rd_bin("pipeline", true)
        };
        // 6 GB address-space cap: a runaway expansion must not take the machine down.
        let mut child = Command::new("sh")
            .arg("-c")
            .arg(format!("ulimit -v 6000000; exec {}", bin.display()))
            .stdin(Stdio::piped())
            .stdout(Stdio::piped())
            .stderr(Stdio::null())
            .spawn()
            .unwrap_or_else(|e| infra(&format!("cannot start pipeline worker: {}", e)));
        let stdin = child.stdin.take().unwrap();
        let stdout = child.stdout.take().unwrap();
        let (tx, rx) = channel();
        std::thread::spawn(move || {
            let rd = BufReader::new(stdout);
            for line in rd.lines() {
                match line {
                    Ok(l) => {
                        if tx.send(l).is_err() {
                            break;
                        }
                    }
                    Err(_) => break,
                }
            }
        });
        self.child = Some((child, stdin, rx));
    }

    fn kill(&mut self) {
        if let Some((mut c, _, _)) = self.child.take() {
            let _ = c.kill();
            let _ = c.wait();
        }
    }

    fn request(&mut self, req: &Value, timeout: Duration) -> Result<Value, Expand> {
        if self.child.is_none() {
            self.spawn();
        }
        let t0 = Instant::now();
        let (_, stdin, rx) = self.child.as_mut().unwrap();
        let line = req.to_string();
        if writeln!(stdin, "{}", line).and_then(|_| stdin.flush()).is_err() {
            self.kill();
            return Err(Expand::Died);
        }
        match rx.recv_timeout(timeout) {
            Ok(l) => serde_json::from_str::<Value>(&l).map_err(|_| Expand::Died),
            Err(RecvTimeoutError::Timeout) => {
                self.kill();
                Err(Expand::Timeout(t0.elapsed().as_secs_f64()))
            }
            Err(RecvTimeoutError::Disconnected) => {
                self.kill();
                Err(Expand::Died)
            }
        }
    }

    pub fn expand(&mut self, def: &str, want_code: bool, timeout: Duration) -> Expand {
        self.expand_opt(def, want_code, false, timeout)
    }

    pub fn expand_opt(&mut self, def: &str, want_code: bool, twice: bool, timeout: Duration) -> Expand {
        let v = match self.request(&json!({"op": "expand", "def": def, "code": want_code, "twice": twice}), timeout) {
            Ok(v) => v,
            Err(e) => return e,
        };
        let msg = v["msg"].as_str().unwrap_or("").to_string();
        match v["status"].as_str() {
            Some("ok") => Expand::Ok {
                hash: v["hash"].as_str().unwrap_or("").to_string(),
                len: v["len"].as_u64().unwrap_or(0) as usize,
                code: v["code"].as_str().map(|s| s.to_string()),
            },
            Some("compile_error") => Expand::CompileError(msg),
            Some("panic") => Expand::Panic(msg),
            Some("lex_error") => Expand::LexError(msg),
            Some("nondeterministic") => Expand::Nondeterministic(msg),
            Some("unparsable_output") => Expand::Unparsable(msg),
            _ => Expand::Died,
        }
    }

    /// Returns the parsed items as S-expressions, or the failure.
    pub fn parse(&mut self, def: &str, timeout: Duration) -> Result<Vec<String>, Expand> {
        let v = self.request(&json!({"op": "parse", "def": def}), timeout)?;
        let msg = v["msg"].as_str().unwrap_or("").to_string();
        match v["status"].as_str() {
            Some("ok") => Ok(v["items"]
                .as_array()
                .map(|a| a.iter().map(|x| x.as_str().unwrap_or("").to_string()).collect())
                .unwrap_or_default()),
            Some("compile_error") => Err(Expand::CompileError(msg)),
            Some("panic") => Err(Expand::Panic(msg)),
            Some("lex_error") => Err(Expand::LexError(msg)),
            _ => Err(Expand::Died),
        }
    }
}

impl Drop for Worker {
    fn drop(&mut self) {
        self.kill();
    }
}

/// The text between the braces of `lexgen::lexer! { ... }` as printed by `Spec::print_macro`.
pub fn macro_body(printed: &str) -> String {
    let start = printed.find('{').map(|i| i + 1).unwrap_or(0);
    let end = printed.rfind('}').unwrap_or(printed.len());
    printed[start..end].to_string()
}

/// Expands all definitions on a pool of workers; results in input order.
pub fn expand_all(defs: &[String], timeout: Duration, want_code: bool, n_workers: usize) -> Vec<Expand> {
    expand_all_opt(defs, timeout, want_code, false, n_workers).into_iter().map(|(e, _)| e).collect()
}

/// Like `expand_all`; also returns the wall time of each expansion.
pub fn expand_all_opt(defs: &[String], timeout: Duration, want_code: bool, twice: bool, n_workers: usize) -> Vec<(Expand, f64)> {
    let n = defs.len();
    let next = std::sync::atomic::AtomicUsize::new(0);
    let results: Vec<std::sync::Mutex<Option<(Expand, f64)>>> =
        (0..n).map(|_| std::sync::Mutex::new(None)).collect();
    std::thread::scope(|s| {
        for _ in 0..n_workers.min(n.max(1)) {
            s.spawn(|| {
                let mut w = Worker::new();
                loop {
                    let i = next.fetch_add(1, std::sync::atomic::Ordering::SeqCst);
                    if i >= n {
                        break;
                    }
                    let t0 = Instant::now();
                    let r = w.expand_opt(&defs[i], want_code, twice, timeout);
                    *results[i].lock().unwrap() = Some((r, t0.elapsed().as_secs_f64()));
                }
            });
        }
    });
    results
        .into_iter()
        .map(|m| m.into_inner().unwrap().unwrap_or((Expand::Died, 0.0)))
        .collect()
}
