//! Engine A properties with purpose-built definitions: C02 (regex languages), C11 part (b)
//! (class algebra through the macro), C13 (built-in classes).

use crate::enga::*;
use crate::props::*;
use crate::server::Outcome;
use crate::util::*;
use oracle::cls::{builtin_cls, Cls, BUILTIN_NAMES};
use oracle::gen::{self, KindMix, Profile, ReParams};
use oracle::model::{Compiled, ModelOut};
use oracle::re::{alt, cat, diff, opt, plus, star, Re, SetItem};
use oracle::spec::{Inner, Kind, ParenStyle, Rule, Spec, Top};
use proptest::prelude::*;
use proptest::test_runner::TestRunner;
use proto::{Case, Item};
use serde_json::{json, Value};

pub fn simple_spec(rules: Vec<(Re, Option<Re>)>, named: bool, lets: Vec<(String, Re)>) -> Spec {
    let mut items: Vec<Top> = lets.into_iter().map(|(n, r)| Top::Let(n, r)).collect();
    let rs: Vec<Rule> = rules
        .into_iter()
        .map(|(re, ctx)| Rule {
            re,
            ctx,
            kind: Kind::Simple,
        })
        .collect();
    if named {
        items.push(Top::RuleSet {
            name: "Init".into(),
            items: rs.into_iter().map(Inner::Rule).collect(),
        });
    } else {
        items.extend(rs.into_iter().map(Top::Rule));
    }
    Spec {
        extra_attrs: vec![],
        vis: "pub".into(),
        items,
        paren: ParenStyle::Full,
        stateless: false,
    }
}

// ---------------------------------------------------------------------------------------------
// C02

pub struct C02;

fn c02_atoms() -> Vec<Re> {
    vec![
        Re::Char('a'),
        Re::Char('b'),
        Re::Str("ab".into()),
        Re::Set(vec![SetItem::R('a', 'b')]),
        Re::Set(vec![SetItem::C('a'), SetItem::C('c')]),
        Re::Any,
    ]
}

/// All regex trees with exactly `n` nodes over the C02 atoms and the operators * + ? cat alt.
fn trees_of_size(n: usize, memo: &mut Vec<Vec<Re>>) -> Vec<Re> {
    if let Some(v) = memo.get(n) {
        if !v.is_empty() || n == 0 {
            return v.clone();
        }
    }
    let mut out = vec![];
    if n == 1 {
        out = c02_atoms();
    } else if n > 1 {
        for t in trees_of_size(n - 1, memo) {
            out.push(star(t.clone()));
            out.push(plus(t.clone()));
            out.push(opt(t));
        }
        for l in 1..n - 1 {
            let r = n - 1 - l;
            let ls = trees_of_size(l, memo);
            let rs = trees_of_size(r, memo);
            for a in &ls {
                for b in &rs {
                    out.push(cat(a.clone(), b.clone()));
                    out.push(alt(a.clone(), b.clone()));
                }
            }
        }
    }
    while memo.len() <= n {
        memo.push(vec![]);
    }
    memo[n] = out.clone();
    out
}

/// Metamorphic pairs: both members are compared with the same reference language.
fn c02_pairs(r: &Re) -> Vec<(Re, Re)> {
    let x = r.clone();
    vec![
        (plus(x.clone()), cat(x.clone(), star(x.clone()))),
        (alt(x.clone(), Re::Char('c')), alt(Re::Char('c'), x.clone())),
        (star(star(x.clone())), star(x.clone())),
        (opt(x.clone()), opt(opt(x.clone()))),
    ]
}

impl Prop for C02 {
    fn id(&self) -> &'static str {
        "C02"
    }
    fn profiles(&self, _tier: Tier) -> Vec<(Profile, usize)> {
        vec![]
    }
    fn custom_specs(&self, tier: Tier, r: &mut TestRunner) -> Vec<(&'static str, Spec)> {
        let mut out: Vec<(&'static str, Spec)> = vec![];
        let mut memo: Vec<Vec<Re>> = vec![vec![]];
        // (a) bounded-exhaustive: all trees up to 4 (quick) / 5 (thorough) nodes
        let max_n = tier.pick(4, 5);
        let mut seen = std::collections::HashSet::new();
        for n in 1..=max_n {
            for t in trees_of_size(n, &mut memo) {
                let t = gen::fix_nullable(t, 'c');
                if seen.insert(t.clone()) {
                    out.push(("exhaustive-trees", simple_spec(vec![(t, None)], false, vec![])));
                }
            }
        }
        // (b) random larger trees with overlapping ranges, `_`, built-ins, `#`, variables
        let mut p = ReParams::basic(&ABCDE);
        p.size = 16;
        p.depth = 6;
        p.w_set = 6;
        p.w_any = 3;
        p.w_diff = 3;
        p.w_builtin = 2;
        let strat = gen::re_strategy(&p);
        let tapes = gen::tape_strategy(24);
        for i in 0..tier.pick(500, 5000) {
            let mut t = gen::fix_nullable(sample(&strat, r), 'a');
            if i % 6 == 1 {
                // a bracket set of 10+ individually listed characters inside a larger regex
                let many = gen::many_char_set(&sample(&tapes, r), 10 + i % 5);
                t = if i % 12 == 1 { cat(plus(many), opt(t)) } else { cat(t, star(many)) };
            }
            if i % 6 == 4 {
                // a `#` whose right side spans several pieces of its left side
                let d = spanning_diff(&sample(&tapes, r));
                t = if i % 12 == 4 { cat(plus(d), opt(t)) } else { cat(t, star(d)) };
            }
            let mut s = simple_spec(vec![(t, None)], i % 3 == 0, vec![]);
            if i % 2 == 0 {
                let tape = sample(&tapes, r);
                gen::factor_lets(&mut s, &tape, 25);
            }
            out.push(("random-trees", s));
        }
        // (b'') trees over the end points of the classes real lexers use (0-9, A-F, A-Z, a-f, a-z,
        // Latin-1 letters, punctuation after 'z'), sets of up to five items
        let pr = crate::props::p_real().re;
        let rstrat = gen::re_strategy(&pr);
        for i in 0..tier.pick(400, 4000) {
            let t = gen::fix_nullable(sample(&rstrat, r), 'a');
            out.push(("real-alphabet-trees", simple_spec(vec![(t, None)], i % 2 == 0, vec![])));
        }
        // (b') the same over multi-byte / wide / zero-width characters (strings, sets, ranges)
        let mut pu = ReParams::basic(&['a', 'é', 'λ', '→', '京', '💝', '\u{301}', 'z']);
        pu.size = 10;
        pu.w_str = 8;
        pu.w_set = 5;
        let ustrat = gen::re_strategy(&pu);
        for i in 0..tier.pick(250, 2500) {
            let t = gen::fix_nullable(sample(&ustrat, r), 'a');
            out.push(("unicode-trees", simple_spec(vec![(t.clone(), None)], i % 2 == 0, vec![])));
            // a string and the concatenation of its characters, with non-ASCII characters
            if i % 5 == 0 {
                let w: String = ['λ', '.', '→', 'é', '京'].iter().cycle().skip(i % 5).take(2 + i % 3).collect();
                let mut chars = w.chars();
                let mut c = Re::Char(chars.next().unwrap());
                for ch in chars {
                    c = cat(c, Re::Char(ch));
                }
                out.push(("equivalent-forms", simple_spec(vec![(cat(Re::Str(w.clone()), opt(t.clone())), None)], false, vec![])));
                out.push(("equivalent-forms", simple_spec(vec![(cat(c, opt(t)), None)], false, vec![])));
            }
        }
        // (c) metamorphic pairs inside a 3-rule context
        let mut q = ReParams::basic(&ABC);
        q.size = 5;
        q.depth = 3;
        let small = gen::re_strategy(&q);
        for _ in 0..tier.pick(60, 600) {
            let x = sample(&small, r);
            let other1 = gen::fix_nullable(sample(&small, r), 'b');
            let other2 = gen::fix_nullable(sample(&small, r), 'c');
            for (l, rr) in c02_pairs(&x) {
                for form in [l, rr] {
                    let form = gen::fix_nullable(form, 'a');
                    out.push((
                        "equivalent-forms",
                        simple_spec(vec![(other1.clone(), None), (form, None), (other2.clone(), None)], true, vec![]),
                    ));
                }
            }
            // a variable and its definition; a string and the concatenation of its characters;
            // a range and the alternation of its characters
            let xv = gen::fix_nullable(x.clone(), 'a');
            out.push((
                "equivalent-forms",
                simple_spec(
                    vec![(other1.clone(), None), (cat(Re::Var("v".into()), Re::Str("abc".into())), None)],
                    true,
                    vec![("v".into(), xv.clone())],
                ),
            ));
            out.push((
                "equivalent-forms",
                simple_spec(
                    vec![
                        (other1.clone(), None),
                        (cat(xv.clone(), cat(cat(Re::Char('a'), Re::Char('b')), Re::Char('c'))), None),
                    ],
                    true,
                    vec![],
                ),
            ));
            out.push((
                "equivalent-forms",
                simple_spec(vec![(cat(xv.clone(), Re::Set(vec![SetItem::R('a', 'c')])), None)], false, vec![]),
            ));
            out.push((
                "equivalent-forms",
                simple_spec(
                    vec![(cat(xv, alt(alt(Re::Char('a'), Re::Char('b')), Re::Char('c'))), None)],
                    false,
                    vec![],
                ),
            ));
        }
        // (d) wide forms: 8-14 consecutive characters listed one by one (as a bracket set and as
        // an alternation), and single alternations with 17-40 alternatives (keywords, characters,
        // also as the operands of `#`), written as one flat `a | b | c | …` chain
        let starts = ['0', 'a', 'A', 'q', 'α', '!'];
        let kw = proptest::collection::vec(proptest::sample::select(vec!['a', 'b', 'c', 'd', 'e']), 1..=4);
        for i in 0..tier.pick(120, 600) {
            let t = sample(&tapes, r);
            let mut tp = gen::Tape::new(&t);
            let mut spec = match i % 6 {
                5 => {
                    // a bracket set whose later item starts inside one earlier range and ends
                    // inside another one, with uncovered code points in between; items in every
                    // order; sometimes a fourth item
                    let base = ['a' as u32, '0' as u32, 0x3b1][tp.next(3) as usize];
                    let w1 = 1 + tp.next(4);
                    let gap = 2 + tp.next(8);
                    let w2 = 1 + tp.next(4);
                    let r1 = (base, base + w1);
                    let r2 = (base + w1 + gap, base + w1 + gap + w2);
                    let bridge = (r1.0 + tp.next(w1 + 1), r2.0 + tp.next(w2 + 1));
                    let ch = |v: u32| char::from_u32(v).unwrap_or('a');
                    let mut items = vec![SetItem::R(ch(r1.0), ch(r1.1)), SetItem::R(ch(r2.0), ch(r2.1)), SetItem::R(ch(bridge.0), ch(bridge.1))];
                    if tp.next(3) == 0 {
                        items.push(SetItem::C(ch(r2.1 + 2)));
                    }
                    let rot = tp.next(items.len() as u32) as usize;
                    items.rotate_left(rot);
                    if tp.next(2) == 0 {
                        items.swap(0, 1);
                    }
                    let class = Re::Set(items);
                    let rules = match tp.next(3) {
                        0 => vec![(plus(class), None), (Re::Any, None)],
                        1 => vec![(cat(Re::Char('x'), star(class)), None), (Re::Any, None)],
                        _ => vec![(class, None), (Re::Any, None)],
                    };
                    ("bridged-ranges", simple_spec(rules, i % 4 < 2, vec![]))
                }
                4 => {
                    // classes with 33-90 pieces (beyond any size gate of the range maps and of
                    // the subset construction), united with / followed by a perturbed copy whose
                    // pieces overlap the original's with different end points
                    let n = 33 + tp.next(58) as usize;
                    let long = proptest::collection::vec(any::<u32>(), 400);
                    let t2 = sample(&long, r);
                    let mut tp = gen::Tape::new(&t2);
                    // nine in ten pieces are ranges (single characters become character
                    // transitions, which do not enter the range maps)
                    let s1 = {
                        let mut items = vec![];
                        let mut x = 0x100 + tp.next(0x300);
                        for _ in 0..n {
                            let len = if tp.next(10) == 0 { 0 } else { 1 + tp.next(4) };
                            let (a, b) = (char::from_u32(x).unwrap_or('a'), char::from_u32(x + len).unwrap_or('a'));
                            items.push(if len == 0 { SetItem::C(a) } else { SetItem::R(a, b) });
                            x += len + 2 + tp.next(12);
                        }
                        Re::Set(items)
                    };
                    let perturbed = match &s1 {
                        Re::Set(items) => Re::Set(
                            items
                                .iter()
                                .filter_map(|it| {
                                    let (a, b) = match it {
                                        SetItem::C(c) => (*c as u32, *c as u32),
                                        SetItem::R(a, b) => (*a as u32, *b as u32),
                                    };
                                    let (a2, b2) = match tp.next(6) {
                                        0 => return None,
                                        1 => (a, b + 1),
                                        2 => (a.saturating_sub(1), b),
                                        3 if a < b => (a + 1, b),
                                        4 if a < b => (a, b - 1),
                                        _ => (a, b),
                                    };
                                    match (char::from_u32(a2), char::from_u32(b2)) {
                                        (Some(x), Some(y)) => Some(if x == y { SetItem::C(x) } else { SetItem::R(x, y) }),
                                        _ => None,
                                    }
                                })
                                .collect(),
                        ),
                        other => other.clone(),
                    };
                    let rules = match tp.next(4) {
                        0 => vec![(plus(alt(s1, perturbed)), None), (Re::Any, None)],
                        1 => vec![(plus(s1), None), (plus(perturbed), None), (Re::Any, None)],
                        2 => vec![(cat(s1.clone(), Re::Char('!')), None), (cat(perturbed, Re::Char('?')), None), (plus(s1), None), (Re::Any, None)],
                        _ => vec![(plus(diff(s1, perturbed)), None), (Re::Any, None)],
                    };
                    ("big-sets", simple_spec(rules, i % 10 < 5, vec![]))
                }
                0 | 1 => {
                    let k = 8 + tp.next(7);
                    let s0 = starts[tp.next(starts.len() as u32) as usize] as u32;
                    let cs: Vec<char> = (0..k).filter_map(|d| char::from_u32(s0 + d)).collect();
                    let class = if i % 4 == 0 {
                        Re::Set(cs.iter().map(|c| SetItem::C(*c)).collect())
                    } else {
                        let mut it = cs.iter();
                        let mut a = Re::Char(*it.next().unwrap());
                        for c in it {
                            a = alt(a, Re::Char(*c));
                        }
                        a
                    };
                    let rules = match tp.next(3) {
                        0 => vec![(plus(class), None), (Re::Any, None)],
                        1 => vec![(cat(Re::Char('x'), star(class)), None), (Re::Any, None)],
                        _ => vec![(class, None), (Re::Any, None)],
                    };
                    ("consecutive-chars", simple_spec(rules, i % 8 < 4, vec![]))
                }
                2 => {
                    let n = 17 + tp.next(24) as usize;
                    let mut seen = std::collections::BTreeSet::new();
                    let mut a: Option<Re> = None;
                    while seen.len() < n {
                        let w: String = sample(&kw, r).into_iter().collect();
                        if seen.insert(w.clone()) {
                            let leaf = if w.chars().count() == 1 && tp.next(2) == 0 { Re::Char(w.chars().next().unwrap()) } else { Re::Str(w) };
                            a = Some(match a {
                                None => leaf,
                                Some(x) => alt(x, leaf),
                            });
                        }
                    }
                    let rules = vec![(cat(a.unwrap(), Re::Char(';')), None), (plus(Re::Set(vec![SetItem::R('a', 'e')])), None), (Re::Char(';'), None)];
                    ("wide-alternation", simple_spec(rules, i % 8 < 4, vec![]))
                }
                _ => {
                    // 17-40 scattered characters as one alternation: alone, and on either side of `#`
                    let n = 17 + tp.next(24);
                    let mut x = 0x21 + tp.next(8);
                    let mut a: Option<Re> = None;
                    for _ in 0..n {
                        let leaf = Re::Char(char::from_u32(x).unwrap_or('a'));
                        a = Some(match a {
                            None => leaf,
                            Some(y) => alt(y, leaf),
                        });
                        x += 1 + tp.next(3);
                    }
                    let a = a.unwrap();
                    let class = match tp.next(3) {
                        0 => a,
                        1 => diff(Re::Set(vec![SetItem::R('!', '~')]), a),
                        _ => diff(a, Re::Set(vec![SetItem::R('0', '9')])),
                    };
                    ("wide-alternation", simple_spec(vec![(plus(class), None), (Re::Any, None)], i % 8 < 4, vec![]))
                }
            };
            spec.1.paren = oracle::spec::ParenStyle::Minimal;
            out.push(spec);
        }
        // one state with 1 600 character transitions next to a class of 700 pieces that covers
        // them (each listed character must also follow the class's transition)
        for i in 0..tier.pick(1, 3) {
            let mut pieces = vec![];
            let mut listed = vec![];
            let mut x = 0x4E00u32 + 7 * i as u32;
            for k in 0..700u32 {
                let len = 3 + (k * 7 + i as u32) % 6;
                pieces.push(SetItem::R(char::from_u32(x).unwrap(), char::from_u32(x + len).unwrap()));
                listed.push(SetItem::C(char::from_u32(x).unwrap()));
                listed.push(SetItem::C(char::from_u32(x + len).unwrap()));
                if k % 3 == 0 {
                    listed.push(SetItem::C(char::from_u32(x + 1).unwrap()));
                }
                x += len + 1 + (k % 3);
            }
            let rules = vec![(Re::Set(listed), None), (plus(Re::Set(pieces)), None), (Re::Any, None)];
            let mut sp = simple_spec(rules, i % 2 == 1, vec![]);
            sp.paren = ParenStyle::Full;
            out.push(("big-sets", sp));
        }
        // spell a third of all definitions with the fewest parentheses the grammar allows and a
        // third with redundant ones (the trees, hence the reference languages, are the same)
        for (k, (_, s)) in out.iter_mut().enumerate() {
            match k % 3 {
                1 => s.paren = oracle::spec::ParenStyle::Minimal,
                2 => s.paren = oracle::spec::ParenStyle::Redundant((k as u64).wrapping_mul(0x9E37_79B9_7F4A_7C15)),
                _ => {}
            }
            if k % 4 == 3 && s.can_be_stateless() {
                s.stateless = true;
            }
        }
        out
    }
    fn cases(&self, ctx: &SpecCtx, _c: &mut Compiled, r: &mut TestRunner, tier: Tier) -> Vec<Case> {
        let mut cs: Vec<Case> = gen::all_strings(&ABC, 6)
            .into_iter()
            .map(|s| gen::simple_case(s, vec![]))
            .collect();
        cs.extend(cases_from(
            ctx,
            r,
            &Plan {
                exhaustive_cap: 0,
                guided: tier.pick(150, 600),
                wild: 20,
                scripts: false,
                script_len: 0,
                scripts_per_input: 1,
            },
        ));
        // every code point next to an end point of a class of the definition, alone, doubled and
        // after a member
        let mut edge: Vec<char> = vec![];
        let (max_pieces, max_edge) = if ctx.profile == "big-sets" { (100, 600) } else { (40, 120) };
        for cl in _c.classes.iter() {
            for &(lo, hi) in cl.0.iter().take(max_pieces) {
                for v in [lo.wrapping_sub(1), lo, hi, hi.saturating_add(1)] {
                    if let Some(ch) = char::from_u32(v) {
                        if !edge.contains(&ch) && edge.len() < max_edge {
                            edge.push(ch);
                        }
                    }
                }
            }
        }
        let member = edge.get(1).copied();
        for &e in &edge {
            cs.push(gen::simple_case(e.to_string(), vec![]));
            cs.push(gen::simple_case(format!("{}{}", e, e), vec![]));
            if let Some(m) = member {
                cs.push(gen::simple_case(format!("{}{}{}", m, e, m), vec![]));
                cs.push(gen::simple_case(format!("x{}{}", m, e), vec![]));
            }
        }
        if ctx.profile == "wide-alternation" {
            // every alternative on its own, and followed by the terminator
            fn leaves(re: &Re, out: &mut Vec<String>) {
                match re {
                    Re::Alt(a, b) => {
                        leaves(a, out);
                        leaves(b, out);
                    }
                    Re::Cat(a, _) | Re::Plus(a) | Re::Diff(a, _) => leaves(a, out),
                    Re::Str(s) => out.push(s.clone()),
                    Re::Char(c) => out.push(c.to_string()),
                    _ => {}
                }
            }
            let mut ls = vec![];
            leaves(&ctx.spec.rules()[0].re, &mut ls);
            for l in ls {
                cs.push(gen::simple_case(format!("{};", l), vec![]));
                cs.push(gen::simple_case(format!("{}{};", l, l), vec![]));
            }
        }
        cs
    }
    fn judge(&self, ctx: &SpecCtx, v: &[Case], models: &[ModelOut], gots: &[Outcome]) -> Verdict {
        let t = match basic_health(&gots[0]) {
            Ok(t) => t,
            Err(e) => return Verdict::Bad(e),
        };
        match compare_runs(&models[0].trace.a, &t.a, &Facet::TOKENS) {
            Err(e) => Verdict::Bad(e),
            Ok(()) => {
                let ops: usize = ctx.spec.rules().iter().map(|r| r.re.n_ops()).max().unwrap_or(0);
                let first_ok = matches!(models[0].trace.a.items.first(), Some(Item::Tok { .. }));
                Verdict::Ok {
                    nontrivial: ops >= 2 && first_ok && v[0].input.chars().count() >= 2,
                }
            }
        }
    }
    fn rule(&self) -> String {
        "single-rule lexers `re = 0` for (a) EVERY regex tree with up to 4 (quick) / 5 (thorough) nodes over the atoms {'a','b',\"ab\",['a'-'b'],['a' 'c'],_} and the operators * + ? concatenation |, made non-nullable; (b) random trees up to 16 nodes with overlapping ranges, `_` mixed with ranges and literals, nested repetition, built-ins, `#` and `let` variables; (c) the documented equivalent spellings (r+ / r r*, a|b / b|a, r** / r*, r? / r??, $v / its definition, \"abc\" / 'a' 'b' 'c', ['a'-'c'] / 'a'|'b'|'c') inside multi-rule definitions. Inputs: all 1,093 strings up to length 6 over {a,b,c} plus sampled lexemes with mutations. For every string the token sequence up to the first failure (in particular the longest prefix in L(re), or failure) must equal the reference; equivalent spellings are compared with the same reference language. Non-trivial = the regex has at least 2 operators, the string has at least 2 characters and is not rejected at once.".into()
    }
    fn min_nontrivial(&self, _tier: Tier) -> usize {
        1000
    }
}

// ---------------------------------------------------------------------------------------------
// Shapes in which a class is compiled (they reach different code generators)

#[derive(Clone, Copy, Debug, PartialEq, Eq)]
pub enum Shape {
    /// `CLASS = 0, _ = 1`: accepting transitions, one match arm per range
    AcceptArms,
    /// `CLASS = 0` alone: non-members are errors
    Alone,
    /// `CLASS+ = 0, _ = 1`: ranges lead to a non-terminal state — guard chain (<= 9 ranges) or
    /// binary-search table (> 9)
    Loop,
    /// `'!' > CLASS = 0, _ = 1`: the class inside a right-context function
    Ctx,
    /// `CLASS+ = 0, 'm1' '!' = 1, 'm2' '!' = 2, …, _ = k`: literal characters that are members of
    /// the class (end points of its pieces) leave the same state as the class's ranges
    WithLiterals,
    /// `CLASS+ = 0, '!' (CLASS # m)+ = 1, _ = 2` for a member m that ends a piece: two nearly
    /// identical classes (same piece starts, one different end) compiled into one lexer
    TwoTables,
}

pub const SHAPES: [Shape; 6] = [Shape::AcceptArms, Shape::Alone, Shape::Loop, Shape::Ctx, Shape::WithLiterals, Shape::TwoTables];

/// Members of the class that sit at piece boundaries with at least two pieces before them where
/// possible (they become character literals of competing rules).
fn literal_members(cls: &Cls) -> Vec<char> {
    let n = cls.0.len();
    let mut v = vec![];
    let mut idx = vec![n.saturating_sub(1), n / 2, 2.min(n.saturating_sub(1)), 0];
    idx.dedup();
    for (k, i) in idx.into_iter().enumerate() {
        if let Some(&(a, b)) = cls.0.get(i) {
            let x = if k % 2 == 0 { b } else { a };
            if let Some(c) = char::from_u32(x) {
                if !v.contains(&c) && c != '!' {
                    v.push(c);
                }
            }
        }
    }
    v
}

pub fn class_spec(class: Re, shape: Shape, lets: Vec<(String, Re)>) -> Spec {
    match shape {
        Shape::AcceptArms => simple_spec(vec![(class, None), (Re::Any, None)], false, lets),
        Shape::Alone => simple_spec(vec![(class, None)], false, lets),
        Shape::Loop => simple_spec(vec![(plus(class), None), (Re::Any, None)], false, lets),
        Shape::Ctx => simple_spec(vec![(Re::Char('!'), Some(class)), (Re::Any, None)], false, lets),
        Shape::WithLiterals => {
            let members = class
                .expand(&lets.iter().cloned().collect())
                .and_then(|c| c.class())
                .map(|c| literal_members(&c))
                .unwrap_or_default();
            let mut rules = vec![(plus(class), None)];
            for m in members {
                rules.push((cat(Re::Char(m), Re::Char('!')), None));
            }
            rules.push((Re::Any, None));
            simple_spec(rules, false, lets)
        }
        Shape::TwoTables => {
            let cls = class.expand(&lets.iter().cloned().collect()).and_then(|c| c.class()).unwrap_or_else(Cls::empty);
            // a member that is the last code point of a piece with more than one code point
            let m = cls
                .0
                .iter()
                .rev()
                .find(|(a, b)| b > a && char::from_u32(*b).map(|c| c != '!').unwrap_or(false))
                .and_then(|(_, b)| char::from_u32(*b));
            let second = match m {
                Some(m) => gen::mk_diff(class.clone(), Re::Char(m)),
                None => class.clone(),
            };
            simple_spec(
                vec![(plus(class), None), (cat(Re::Char('!'), plus(second)), None), (Re::Any, None)],
                false,
                lets,
            )
        }
    }
}

/// Input that exposes the membership of each of `chars` under the given shape.
pub fn class_input(chars: &[char], shape: Shape) -> String {
    match shape {
        Shape::Ctx => {
            let mut s = String::with_capacity(chars.len() * 5);
            for c in chars {
                s.push('!');
                s.push(*c);
            }
            s
        }
        Shape::TwoTables => {
            // every probe alone (first class), then every probe right after a '!' (second class)
            let mut s: String = chars.iter().filter(|c| **c != '!').collect();
            for c in chars {
                if *c != '!' {
                    s.push(' ');
                    s.push('!');
                    s.push(*c);
                }
            }
            s
        }
        _ => chars.iter().collect(),
    }
}

fn probe_chars(cls: &Cls, r: &mut TestRunner, n_random: usize) -> Vec<char> {
    let mut v: Vec<char> = vec![];
    for &(a, b) in &cls.0 {
        for x in [
            a.wrapping_sub(2),
            a.wrapping_sub(1),
            a,
            a + 1,
            a + 2,
            b.wrapping_sub(2),
            b.wrapping_sub(1),
            b,
            b + 1,
            b + 2,
        ] {
            if let Some(c) = char::from_u32(x) {
                v.push(c);
            }
        }
        if v.len() > 40_000 {
            break;
        }
    }
    for x in [0u32, 1, 0x7f, 0x80, 0xD7FF, 0xE000, 0x10FFFE, 0x10FFFF] {
        v.push(char::from_u32(x).unwrap());
    }
    let any = any::<char>();
    for _ in 0..n_random {
        v.push(sample(&any, r));
    }
    v
}


/// `[p1 p2 … pk] # [s-e]` where the removed range starts inside one piece of the left side and
/// ends inside a later one, or equals / covers pieces exactly; optionally chained.
pub fn spanning_diff(t: &[u32]) -> Re {
    let mut tp = gen::Tape::new(t);
    let mut pieces: Vec<(u32, u32)> = vec![];
    let mut x = 0x30 + tp.next(0x30);
    for _ in 0..(2 + tp.next(4)) {
        let len = tp.next(6);
        pieces.push((x, x + len));
        x += len + 2 + tp.next(5);
    }
    let ch = |v: u32| char::from_u32(v).unwrap_or('a');
    let left = Re::Set(pieces.iter().map(|&(a, b)| if a == b { SetItem::C(ch(a)) } else { SetItem::R(ch(a), ch(b)) }).collect());
    let pi = tp.next(pieces.len() as u32 - 1) as usize;
    let pj = pi + 1 + tp.next((pieces.len() - pi - 1) as u32) as usize;
    let (s, e) = match tp.next(4) {
        0 => (pieces[pi].0 + tp.next(pieces[pi].1 - pieces[pi].0 + 1), pieces[pj].0 + tp.next(pieces[pj].1 - pieces[pj].0 + 1)),
        1 => (pieces[pi].0, pieces[pj].1),
        2 => (pieces[pi].0.saturating_sub(1), pieces[pj].1 + 1),
        _ => (pieces[pi].1, pieces[pj].0),
    };
    let removed = Re::Set(vec![SetItem::R(ch(s), ch(e.max(s)))]);
    let mut d = gen::mk_diff(left, removed);
    if tp.next(2) == 1 {
        d = gen::mk_diff(d, Re::Set(vec![SetItem::R(ch(pieces[0].0), ch(pieces[0].1))]));
    }
    d
}

// ---------------------------------------------------------------------------------------------
// C11 part (b)

pub struct C11b;

const EXACT_BUILTINS: [&str; 13] = [
    "ascii",
    "ascii_alphabetic",
    "ascii_alphanumeric",
    "ascii_control",
    "ascii_digit",
    "ascii_graphic",
    "ascii_hexdigit",
    "ascii_lowercase",
    "ascii_punctuation",
    "ascii_uppercase",
    "ascii_whitespace",
    "control",
    "whitespace",
];

fn count_diff_multi(re: &Re) -> bool {
    match re {
        Re::Diff(a, b) => {
            let l = a.class().map(|c| c.0.len()).unwrap_or(0);
            let covers = match (a.class(), b.class()) {
                (Some(ca), Some(cb)) => cb.0.iter().any(|&(s, e)| ca.0.iter().filter(|&&(x, y)| !(y < s || e < x)).count() >= 2),
                _ => false,
            };
            (l >= 2 && covers) || count_diff_multi(a) || count_diff_multi(b)
        }
        Re::Alt(a, b) => count_diff_multi(a) || count_diff_multi(b),
        _ => false,
    }
}

impl Prop for C11b {
    fn id(&self) -> &'static str {
        "C11"
    }
    fn profiles(&self, _tier: Tier) -> Vec<(Profile, usize)> {
        vec![]
    }
    fn custom_specs(&self, tier: Tier, r: &mut TestRunner) -> Vec<(&'static str, Spec)> {
        let chars: Vec<char> = vec![
            '\0', '\u{1}', '0', '5', '7', '8', '9', 'a', 'b', 'c', 'd', 'm', 'y', 'z', '{', '\u{7f}', '\u{80}', 'é', '\u{d7ff}', '\u{e000}',
            '京', '\u{fffd}', '\u{10000}', '💝', '\u{10fffe}', '\u{10ffff}',
        ];
        let mut p = ReParams::basic(&chars);
        p.builtins = EXACT_BUILTINS.to_vec();
        let cs = gen::class_strategy(&p);
        let tapes = gen::tape_strategy(80);
        let mut out = vec![];
        for i in 0..tier.pick(500, 5000) {
            let mut c = sample(&cs, r);
            if i % 3 == 1 {
                // a removed range that starts inside one piece of the left side and ends inside a
                // later one, or equals a piece, or covers several pieces entirely; chained
                let t = sample(&tapes, r);
                let mut tp = gen::Tape::new(&t);
                let d = spanning_diff(&t);
                let _ = tp.next(2);
                c = if tp.next(3) == 0 { alt(d, c) } else { d };
            } else if i % 5 == 3 {
                // a small left operand minus a class with many more pieces (16-24), whose pieces
                // start inside / end beyond the left operand's ranges
                let t = sample(&tapes, r);
                let big = gen::many_piece_set(&t, 16 + i % 9);
                if let Some(bc) = big.class().filter(|bc| bc.0.len() > 3) {
                    let mut tp = gen::Tape::new(&t);
                    let k = tp.next(bc.0.len() as u32 - 3) as usize;
                    let ch = |v: u32| char::from_u32(v).unwrap_or('a');
                    // from the middle of piece k (or just before it) to the middle of piece k+2
                    let lo = bc.0[k].0 + tp.next(2) - tp.next(2).min(bc.0[k].0);
                    let hi = (bc.0[k + 2].0 + bc.0[k + 2].1) / 2 + tp.next(2);
                    let mut items = vec![SetItem::R(ch(lo), ch(hi.max(lo)))];
                    if tp.next(2) == 1 {
                        let far = bc.0[bc.0.len() - 1].1 + 5;
                        items.push(SetItem::R(ch(far), ch(far + 9)));
                    }
                    c = gen::mk_diff(Re::Set(items), big);
                }
            } else if i % 5 == 2 {
                // ten or more individually listed characters (no ranges)
                let many = gen::many_char_set(&sample(&tapes, r), 10 + i % 7);
                c = if i % 10 == 2 { alt(many, c) } else { many };
            } else if i % 5 == 0 {
                // many pieces: beyond the guard-chain threshold, minus / plus something
                let big = gen::many_piece_set(&sample(&tapes, r), 10 + i % 9);
                c = if i % 10 == 0 { gen::mk_diff(big, c) } else { alt(big, c) };
            }
            if i % 13 == 7 {
                // `((_ # X) | Y) # Z` with Y inside X: a union whose left side spans the whole
                // scalar range with holes and whose right side puts characters back into a hole
                if let Some(xc) = c.class().filter(|k| !k.is_empty()) {
                    let t = sample(&tapes, r);
                    let mut tp = gen::Tape::new(&t);
                    let piece = xc.0[tp.next(xc.0.len() as u32) as usize];
                    let y1 = char::from_u32(piece.0).unwrap_or('a');
                    let y2 = char::from_u32(piece.1).unwrap_or('a');
                    let y = if tp.next(2) == 0 { Re::Char(y1) } else { Re::Set(vec![SetItem::C(y1), SetItem::C(y2)]) };
                    let z = Re::Set(vec![SetItem::C(' '), SetItem::C('\n')]);
                    let left = alt(diff(Re::Any, c.clone()), y);
                    c = if tp.next(3) == 0 { left } else { diff(left, z) };
                }
            }
            if c.class().map(|k| k.is_empty()).unwrap_or(true) {
                continue;
            }
            let shape = SHAPES[i % 6];
            if shape == Shape::TwoTables && c.class().map(|k| k.0.len() <= 9).unwrap_or(false) {
                // both classes of this shape must be table-sized
                let big = gen::many_piece_set(&sample(&tapes, r), 11 + i % 7);
                c = alt(big, c);
            }
            let mut lets = vec![];
            let class = if i % 11 == 5 {
                // a user variable named like a built-in: `$name` is the variable, `$$name` the
                // built-in, also side by side under `#`
                let name = EXACT_BUILTINS[(i / 11) % EXACT_BUILTINS.len()];
                lets.push((name.to_string(), c));
                let d = diff(Re::Builtin(name.into()), Re::Var(name.into()));
                match d.class() {
                    Some(k) if !k.is_empty() && i % 2 == 1 => d,
                    _ => alt(diff(Re::Builtin(name.into()), Re::Char('5')), Re::Var(name.into())),
                }
            } else if i % 7 == 3 {
                // through a variable bound to a class
                if let Re::Diff(a, b) = c.clone() {
                    lets.push(("k".to_string(), *a));
                    diff(Re::Var("k".into()), *b)
                } else {
                    lets.push(("k".to_string(), c));
                    Re::Var("k".into())
                }
            } else {
                c
            };
            out.push(("class-expr", class_spec(class, shape, lets)));
        }
        out
    }
    fn cases(&self, ctx: &SpecCtx, _c: &mut Compiled, r: &mut TestRunner, tier: Tier) -> Vec<Case> {
        let shape = shape_of(&ctx.spec);
        let cls = ctx.flat.sets[0].rules[0]
            .ctx
            .as_ref()
            .and_then(|c| c.class())
            .or_else(|| match &ctx.flat.sets[0].rules[0].re {
                Re::Plus(a) => a.class(),
                other => other.class(),
            })
            .unwrap_or_else(Cls::empty);
        let chars = probe_chars(&cls, r, tier.pick(1500, 6000));
        vec![gen::simple_case(class_input(&chars, shape), vec![])]
    }
    fn judge(&self, ctx: &SpecCtx, v: &[Case], models: &[ModelOut], gots: &[Outcome]) -> Verdict {
        let t = match basic_health(&gots[0]) {
            Ok(t) => t,
            Err(e) => return Verdict::Bad(e),
        };
        let facet = Facet {
            locs: false,
            log: false,
            log_text_peek: false,
            upto_first_invalid: false,
            after_first_invalid: false,
            err_locs: true,
        };
        match compare_runs(&models[0].trace.a, &t.a, &facet) {
            Err(e) => Verdict::Bad(describe_char_mismatch(&v[0].input, &e)),
            Ok(()) => {
                let rule0 = &ctx.spec.rules()[0];
                let expr = rule0.ctx.clone().unwrap_or_else(|| rule0.re.clone());
                let expanded = ctx.flat.sets[0].rules[0].ctx.clone().unwrap_or_else(|| ctx.flat.sets[0].rules[0].re.clone());
                let _ = expr;
                Verdict::Ok {
                    nontrivial: count_diff_multi(&match expanded {
                        Re::Plus(a) => *a,
                        o => o,
                    }),
                }
            }
        }
    }
    fn unusable_is_violation(&self, _spec: &Spec) -> bool {
        true
    }
    fn rule(&self) -> String {
        "part (b): random class expressions over bracket sets, overlapping ranges, `_`, the 13 built-ins that are exact on this toolchain, `|` and chained `#` (also through a `let` variable, also with 10-18 scattered pieces so that the binary-search table is used), compiled in four shapes — `C = 0, _ = 1` (one accepting arm per range), `C = 0` alone, `C+ = 0, _ = 1` (guard chain or search table) and `'!' > C` (inside a right-context function). One input per definition containing every code point within +-2 of every end point of the class, the scalar-range corners and 1,500+ random scalars; the complete item stream is compared with the reference, whose classes come from the oracle's own interval algebra. A class expression that panics the macro or does not compile is a violation. Non-trivial = the expression contains a `#` whose right side overlaps at least two pieces of its left side.".into()
    }
    fn min_nontrivial(&self, _tier: Tier) -> usize {
        40
    }
}

pub fn shape_of(spec: &Spec) -> Shape {
    let rules = spec.rules();
    if rules[0].ctx.is_some() {
        Shape::Ctx
    } else if matches!(rules[0].re, Re::Plus(_)) && rules.len() == 3 && matches!(&rules[1].re, Re::Cat(a, b) if matches!(**a, Re::Char('!')) && matches!(**b, Re::Plus(_))) {
        Shape::TwoTables
    } else if matches!(rules[0].re, Re::Plus(_)) && rules.len() > 2 {
        Shape::WithLiterals
    } else if matches!(rules[0].re, Re::Plus(_)) {
        Shape::Loop
    } else if rules.len() == 1 {
        Shape::Alone
    } else {
        Shape::AcceptArms
    }
}

fn describe_char_mismatch(input: &str, e: &str) -> String {
    // "item K differs: expected T0[a..b ...": show the character at byte a
    let at = e
        .split("expected ")
        .nth(1)
        .and_then(|s| s.split('[').nth(1))
        .and_then(|s| s.split("..").next())
        .and_then(|s| s.trim_start_matches('@').parse::<usize>().ok());
    match at.and_then(|b| input.get(b..)).and_then(|s| s.chars().next()) {
        Some(c) => format!("{} (character U+{:04X})", e, c as u32),
        None => e.to_string(),
    }
}

// ---------------------------------------------------------------------------------------------
// C13

pub struct C13;

/// Recorded Unicode-version drift: per built-in name, the code point ranges where lexgen's table
/// and this toolchain's predicate are known to differ (known finding F9). Membership of these
/// code points is a don't-care; everything else must be exact.
pub fn known_drift(name: &str) -> Cls {
    let text = match std::fs::read_to_string(verif("known/C13_drift.json")) {
        Ok(t) => t,
        Err(_) => return Cls::empty(),
    };
    let v: Value = serde_json::from_str(&text).unwrap_or_else(|e| infra(&format!("known/C13_drift.json: {}", e)));
    let mut rs = vec![];
    if let Some(a) = v[name].as_array() {
        for r in a {
            rs.push((r[0].as_u64().unwrap_or(0) as u32, r[1].as_u64().unwrap_or(0) as u32));
        }
    }
    Cls::from_ranges(rs)
}

fn all_scalars_except(skip: &Cls) -> Vec<char> {
    (0..=0x10FFFFu32)
        .filter_map(char::from_u32)
        .filter(|c| !skip.contains(*c as u32))
        .collect()
}

fn pua_union(name: &str) -> Re {
    // >= 10 disjoint private-use ranges: pushes a small built-in over the guard-chain threshold
    let mut items = vec![];
    for i in 0..11u32 {
        let a = 0xE100 + i * 0x20;
        items.push(SetItem::R(char::from_u32(a).unwrap(), char::from_u32(a + 3 + i).unwrap()));
    }
    alt(Re::Builtin(name.into()), Re::Set(items))
}

/// `$$name # [everything outside the window]`: at most 9 pieces remain — the guard-chain shape for
/// a built-in that is otherwise compiled into a search table.
fn window_of(name: &str, k: usize) -> Option<Re> {
    let cls = builtin_cls(name)?;
    if cls.0.len() <= 9 {
        return None;
    }
    let start = (k * 7) % (cls.0.len() - 7);
    let lo = cls.0[start].0.saturating_sub(2);
    let hi = (cls.0[start + 6].1 + 2).min(0x10FFFF);
    let mut outside = vec![];
    let cv = |x: u32| -> char {
        // nearest scalar at or above x / below for the complement pieces
        char::from_u32(x).unwrap_or('\u{e000}')
    };
    if lo > 0 {
        let e = lo - 1;
        let e = if (0xD800..=0xDFFF).contains(&e) { 0xD7FF } else { e };
        outside.push(SetItem::R('\0', cv(e)));
    }
    if hi < 0x10FFFF {
        let s = hi + 1;
        let s = if (0xD800..=0xDFFF).contains(&s) { 0xE000 } else { s };
        outside.push(SetItem::R(cv(s), '\u{10ffff}'));
    }
    if outside.is_empty() {
        return None;
    }
    Some(diff(Re::Builtin(name.into()), Re::Set(outside)))
}

fn c13_names_of(spec: &Spec) -> Vec<String> {
    fn find(re: &Re, out: &mut Vec<String>) {
        match re {
            Re::Builtin(n) => out.push(n.clone()),
            Re::Star(a) | Re::Plus(a) | Re::Opt(a) => find(a, out),
            Re::Cat(a, b) | Re::Alt(a, b) | Re::Diff(a, b) => {
                find(a, out);
                find(b, out)
            }
            _ => {}
        }
    }
    let mut out = vec![];
    for r in spec.rules() {
        find(&r.re, &mut out);
        if let Some(c) = &r.ctx {
            find(c, &mut out);
        }
    }
    out
}

fn c13_name_of(spec: &Spec) -> Option<String> {
    fn find(re: &Re) -> Option<String> {
        match re {
            Re::Builtin(n) => Some(n.clone()),
            Re::Star(a) | Re::Plus(a) | Re::Opt(a) => find(a),
            Re::Cat(a, b) | Re::Alt(a, b) | Re::Diff(a, b) => find(a).or_else(|| find(b)),
            _ => None,
        }
    }
    let r = spec.rules()[0].clone();
    r.ctx.as_ref().and_then(find).or_else(|| find(&r.re))
}

impl Prop for C13 {
    fn id(&self) -> &'static str {
        "C13"
    }
    fn profiles(&self, _tier: Tier) -> Vec<(Profile, usize)> {
        vec![]
    }
    fn custom_specs(&self, tier: Tier, _r: &mut TestRunner) -> Vec<(&'static str, Spec)> {
        let mut out = vec![];
        for name in BUILTIN_NAMES {
            for shape in SHAPES {
                out.push(("builtin-alone", class_spec(Re::Builtin(name.into()), shape, vec![])));
            }
            // literal members must avoid recorded drift (their membership is a don't-care)
            let n_ranges = builtin_cls(name).map(|c| c.0.len()).unwrap_or(0);
            if n_ranges <= 9 {
                out.push(("builtin-table-shape", class_spec(pua_union(name), Shape::Loop, vec![])));
                out.push(("builtin-table-shape", class_spec(pua_union(name), Shape::Ctx, vec![])));
            } else {
                let n_windows = tier.pick(6, ((n_ranges / 7) + 1).min(120));
                for k in 0..n_windows {
                    if let Some(w) = window_of(name, k + seed() as usize % 5) {
                        out.push(("builtin-guard-shape", class_spec(w.clone(), Shape::Loop, vec![])));
                        if k % 3 == 0 {
                            out.push(("builtin-guard-shape", class_spec(w, Shape::Ctx, vec![])));
                        }
                    }
                }
            }
        }
        // combined with other classes: two built-ins as competing rules (their range transitions
        // are merged and split against each other)
        let mut pairs = vec![];
        for (i, a) in BUILTIN_NAMES.iter().enumerate() {
            for (j, b) in BUILTIN_NAMES.iter().enumerate() {
                if i != j {
                    pairs.push((*a, *b));
                }
            }
        }
        // class-level combinations of two built-ins: difference and union
        {
            let n_comb = tier.pick(40, pairs.len());
            let start = (seed() as usize * 11) % pairs.len();
            for k in 0..n_comb {
                let (a, b) = pairs[(start + k * 17) % pairs.len()];
                let (ca, cb) = (builtin_cls(a).unwrap(), builtin_cls(b).unwrap());
                let d = diff(Re::Builtin(a.into()), Re::Builtin(b.into()));
                if !ca.minus(cb).is_empty() {
                    out.push(("builtin-difference", class_spec(d, if k % 3 == 0 { Shape::Ctx } else { Shape::Loop }, vec![])));
                }
                let u = alt(Re::Builtin(a.into()), Re::Builtin(b.into()));
                out.push(("builtin-union", class_spec(u, if k % 3 == 1 { Shape::Ctx } else { Shape::Loop }, vec![])));
            }
        }
        // a built-in next to itself minus the LAST character of one of its pieces, as competing
        // rules of one state: two range sets with the same number of ranges and the same start
        // points but one different end point
        for name in BUILTIN_NAMES {
            let cls = match builtin_cls(name) {
                Some(c) if c.0.len() >= 2 => c,
                _ => continue,
            };
            let drift = known_drift(name);
            let n = cls.0.len();
            let m = (0..n)
                .map(|k| cls.0[(n / 2 + k) % n])
                .filter(|(a, b)| b > a)
                .filter_map(|(_, b)| char::from_u32(b))
                .find(|c| !drift.contains(*c as u32));
            if let Some(m) = m {
                let narrow = plus(diff(Re::Builtin(name.into()), Re::Char(m)));
                let wide = plus(Re::Builtin(name.into()));
                out.push(("builtin-same-starts", simple_spec(vec![(narrow.clone(), None), (wide.clone(), None), (Re::Any, None)], false, vec![])));
                out.push(("builtin-same-starts", simple_spec(vec![(wide, None), (cat(narrow, Re::Char(m)), None), (Re::Any, None)], false, vec![])));
            }
        }
        let n_pairs = tier.pick(30, pairs.len());
        let start = (seed() as usize * 7) % pairs.len();
        for k in 0..n_pairs {
            let (a, b) = pairs[(start + k * 13) % pairs.len()];
            out.push((
                "builtin-pair",
                simple_spec(
                    vec![(plus(Re::Builtin(a.into())), None), (plus(Re::Builtin(b.into())), None), (Re::Any, None)],
                    false,
                    vec![],
                ),
            ));
        }
        out
    }
    fn cases(&self, ctx: &SpecCtx, _c: &mut Compiled, _r: &mut TestRunner, _tier: Tier) -> Vec<Case> {
        let shape = shape_of(&ctx.spec);
        let name = c13_name_of(&ctx.spec).unwrap_or_default();
        let mut drift = known_drift(&name);
        for n in c13_names_of(&ctx.spec) {
            drift = drift.union(&known_drift(&n));
        }
        // AcceptArms / Alone expose one item per character, so the recorded drift can be treated
        // as a per-character don't-care; the other shapes get an input without those characters.
        let chars = match shape {
            Shape::AcceptArms | Shape::Alone => all_scalars_except(&Cls::empty()),
            _ => all_scalars_except(&drift),
        };
        let mut c = gen::simple_case(class_input(&chars, shape), vec![]);
        c.extra_nexts = 1;
        vec![c]
    }
    fn judge(&self, ctx: &SpecCtx, v: &[Case], models: &[ModelOut], gots: &[Outcome]) -> Verdict {
        let t = match basic_health(&gots[0]) {
            Ok(t) => t,
            Err(e) => return Verdict::Bad(e),
        };
        let shape = shape_of(&ctx.spec);
        let name = c13_name_of(&ctx.spec).unwrap_or_default();
        let per_char = matches!(shape, Shape::AcceptArms | Shape::Alone)
            && models[0].trace.a.items.len() == v[0].input.chars().count();
        match per_char {
            true => {
                // one item per character
                let chars: Vec<char> = v[0].input.chars().collect();
                if t.a.items.len() != chars.len() {
                    return Verdict::Bad(format!(
                        "{} items for {} characters (one single-character lexeme or error per character expected)",
                        t.a.items.len(),
                        chars.len()
                    ));
                }
                let drift = known_drift(&name);
                let exp = &models[0].trace.a.items;
                let mut drift_seen = 0u64;
                for (k, c) in chars.iter().enumerate() {
                    let same = match (&exp[k], &t.a.items[k]) {
                        (Item::Tok { tok: a, start: s1, end: e1 }, Item::Tok { tok: b, start: s2, end: e2 }) => {
                            a == b && s1.byte == s2.byte && e1.byte == e2.byte
                        }
                        (Item::Invalid { loc: a }, Item::Invalid { loc: b }) => a.byte == b.byte,
                        _ => false,
                    };
                    if !same {
                        if drift.contains(*c as u32) {
                            drift_seen += 1;
                            continue;
                        }
                        return Verdict::Bad(format!(
                            "$${}: U+{:04X} is classified differently from the Rust predicate: expected {} got {}",
                            name,
                            *c as u32,
                            fmt_item(&exp[k]),
                            fmt_item(&t.a.items[k])
                        ));
                    }
                }
                if drift_seen > 0 {
                    DRIFT_SEEN.lock().unwrap().insert(name.clone(), drift_seen);
                }
                Verdict::Ok { nontrivial: true }
            }
            false => {
                let facet = Facet {
                    locs: false,
                    log: false,
                    log_text_peek: false,
                    upto_first_invalid: false,
                    after_first_invalid: false,
                    err_locs: true,
                };
                match compare_runs(&models[0].trace.a, &t.a, &facet) {
                    Err(e) => Verdict::Bad(format!("$${}: {}", name, describe_char_mismatch(&v[0].input, &e))),
                    Ok(()) => Verdict::Ok { nontrivial: true },
                }
            }
        }
    }
    fn unusable_is_violation(&self, _spec: &Spec) -> bool {
        true
    }
    fn rule(&self) -> String {
        "for each of the 20 built-in names: lexers in four shapes (`$$n = 0, _ = 1` — one accepting arm per range; `$$n = 0` alone; `$$n+ = 0, _ = 1` — ranges to a non-terminal state: binary-search table for large classes, guard chain for small ones; `'!' > $$n` — inside a right-context function), plus the other membership-test shape for every name: small built-ins united with 11 private-use ranges (forces the table), large ones cut by `# [outside of a window]` into windows of 7 ranges (forces the guard chain; quick: 6 windows per name, thorough: all). EVERY lexer is run over ALL 1,112,064 scalar values (for the context shape: each preceded by '!'). Expected membership = the Rust predicate (char::is_*, unicode-xid). A case is one (definition, whole-range input); non-trivial: all of them (each contains every class boundary). Recorded Unicode-version drift (known finding) is a per-code-point don't-care in the one-item-per-character shapes and removed from the input in the others.".into()
    }
    fn min_nontrivial(&self, _tier: Tier) -> usize {
        60
    }
    fn per_case_timeout_ms(&self) -> u64 {
        120000
    }
}

pub static DRIFT_SEEN: std::sync::Mutex<std::collections::BTreeMap<String, u64>> =
    std::sync::Mutex::new(std::collections::BTreeMap::new());

#[allow(dead_code)]
fn _unused(_: KindMix) {
    let _ = json!(null);
}
