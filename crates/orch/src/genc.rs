//! Generated crates: real `lexer!` invocations compiled by rustc against /repo's working tree.

use crate::util::{cargo_rd, infra, rd_bin, write_if_changed, RD};
use oracle::spec::Spec;
use serde_json::Value;
use std::collections::{BTreeMap, BTreeSet};
use std::path::{Path, PathBuf};
use std::process::Stdio;

pub struct GenBin {
    pub path: PathBuf,
    /// Spec indices served by this binary, in lexer-index order.
    pub specs: Vec<usize>,
}

pub struct GenBuild {
    pub name: String,
    pub bins: Vec<GenBin>,
    /// Specs whose module did not compile, with the first rustc error attributed to them.
    pub failed: BTreeMap<usize, String>,
    pub build_secs: f64,
}

fn crate_dir(name: &str) -> PathBuf {
    Path::new(RD).join("gen").join(name)
}

fn write_crate(name: &str, modules: &BTreeMap<usize, String>, n_bins: usize) -> Vec<Vec<usize>> {
    let dir = crate_dir(name);
    let src = dir.join("src");
    let _ = std::fs::create_dir_all(&src);
    let idxs: Vec<usize> = modules.keys().copied().collect();
    let n_bins = n_bins.max(1).min(idxs.len().max(1));
    let mut groups: Vec<Vec<usize>> = vec![vec![]; n_bins];
    for (k, i) in idxs.iter().enumerate() {
        groups[k % n_bins].push(*i);
    }
    let mut manifest = format!(
        "[package]\nname = \"gen_{name}\"\nversion = \"0.1.0\"\nedition = \"2021\"\n\n[dependencies]\nrt = {{ path = \"../../rt\" }}\nlexgen = {{ path = \"/repo/crates/lexgen\" }}\nlexgen_util = {{ path = \"/repo/crates/lexgen_util\" }}\n"
    );
    let mut wanted: BTreeSet<String> = BTreeSet::new();
    for (b, g) in groups.iter().enumerate() {
        manifest.push_str(&format!(
            "\n[[bin]]\nname = \"gen_{name}_b{b}\"\npath = \"src/b{b}.rs\"\n"
        ));
        let mut root = String::from("#![allow(warnings)]\n");
        for i in g {
            root.push_str(&format!("#[path = \"m{i}.rs\"]\nmod m{i};\n"));
        }
        root.push_str("fn main() {\n    rt::serve(&[\n");
        for i in g {
            root.push_str(&format!("        (\"m{i}\", m{i}::run),\n"));
        }
        root.push_str("    ]);\n}\n");
        write_if_changed(&src.join(format!("b{b}.rs")), &root);
        wanted.insert(format!("b{b}.rs"));
    }
    for (i, body) in modules {
        write_if_changed(&src.join(format!("m{i}.rs")), body);
        wanted.insert(format!("m{i}.rs"));
    }
    if let Ok(rd) = std::fs::read_dir(&src) {
        for e in rd.flatten() {
            let n = e.file_name().to_string_lossy().to_string();
            if !wanted.contains(&n) {
                let _ = std::fs::remove_file(e.path());
            }
        }
    }
    write_if_changed(&dir.join("Cargo.toml"), &manifest);
    groups
}

/// Runs cargo; returns (success, errors attributed to module index, unattributed error text).
fn cargo_build(name: &str) -> (bool, BTreeMap<usize, String>, String) {
    // bounded: a generated crate that rustc cannot finish in 40 minutes is an infrastructure
    // problem of this run, never a verdict
    let mut cmd = std::process::Command::new("timeout");
    cmd.current_dir(RD)
        .args(["2400", "cargo", "build", "-p", &format!("gen_{}", name), "--message-format=json", "--keep-going"])
        .env("CARGO_NET_OFFLINE", "true")
        .env("CARGO_TERM_COLOR", "never");
    let out = cmd
    .stdout(Stdio::piped())
    .stderr(Stdio::piped())
    .output()
    .unwrap_or_else(|e| infra(&format!("cannot run cargo: {}", e)));
    let mut per_mod: BTreeMap<usize, String> = BTreeMap::new();
    let mut other = String::new();
    let marker = format!("gen/{}/src/m", name);
    for line in String::from_utf8_lossy(&out.stdout).lines() {
        let v: Value = match serde_json::from_str(line) {
            Ok(v) => v,
            Err(_) => continue,
        };
        if v["reason"] != "compiler-message" {
            continue;
        }
        let m = &v["message"];
        if m["level"] != "error" {
            continue;
        }
        let text = m["rendered"].as_str().unwrap_or("").to_string();
        // An error inside the harness's own glue (rt::glue!/act!/actf! expansions, not inside
        // lexer!) is the harness's problem, never a verdict about the definition.
        fn in_macro(sp: &Value, name: &str) -> bool {
            let mut cur = &sp["expansion"];
            while !cur.is_null() {
                if cur["macro_decl_name"].as_str().map(|n| n.contains(name)).unwrap_or(false) {
                    return true;
                }
                cur = &cur["span"]["expansion"];
            }
            false
        }
        if let Some(spans) = m["spans"].as_array() {
            let glue = spans.iter().any(|sp| in_macro(sp, "glue"));
            let lexer = spans.iter().any(|sp| in_macro(sp, "lexer"));
            if glue && !lexer {
                infra(&format!("the harness glue (rt::glue!) does not compile against the generated lexer API:\n{}", text));
            }
        }
        let mut attributed = false;
        if let Some(spans) = m["spans"].as_array() {
            for sp in spans {
                // the span itself, or any call site in its macro-expansion chain: an error inside
                // the expansion of rt::act!/actf! (semantic actions, which use only the documented
                // handle methods) written in module mK belongs to mK's definition
                let mut cur = sp;
                loop {
                    let f = cur["file_name"].as_str().unwrap_or("");
                    if let Some(pos) = f.find(&marker) {
                        let rest = &f[pos + marker.len()..];
                        let num: String = rest.chars().take_while(|c| c.is_ascii_digit()).collect();
                        if let Ok(i) = num.parse::<usize>() {
                            per_mod.entry(i).or_insert_with(|| text.clone());
                            attributed = true;
                            break;
                        }
                    }
                    let next = &cur["expansion"]["span"];
                    if next.is_null() {
                        break;
                    }
                    cur = next;
                }
            }
        }
        if !attributed && !text.contains("aborting due to") && !text.contains("could not compile") {
            other.push_str(&text);
            other.push('\n');
        }
    }
    if out.status.code() == Some(124) {
        infra(&format!("rustc did not finish building the generated crate {} within 40 minutes", name));
    }
    if !out.status.success() && per_mod.is_empty() && other.is_empty() {
        other = String::from_utf8_lossy(&out.stderr).to_string();
    }
    (out.status.success(), per_mod, other)
}

/// Builds the crate `name` containing one module per given spec (key = spec index).
/// Modules that fail to compile are reported and dropped; the rest is rebuilt.
pub fn build(name: &str, specs: &BTreeMap<usize, &Spec>, n_bins: usize) -> GenBuild {
    let modules: BTreeMap<usize, String> = specs
        .iter()
        .map(|(i, s)| (*i, s.print_module_body("Lexer")))
        .collect();
    build_modules(name, modules, n_bins)
}

/// Removes generated crates (and their build products) that differ from `name` only in the seed:
/// keeps the disk footprint at one generated crate per (property, tier).
fn prune_siblings(name: &str) {
    let prefix = match name.rfind('_') {
        Some(p) if name[p + 1..].chars().all(|c| c.is_ascii_digit()) && p + 1 < name.len() => &name[..=p],
        _ => return,
    };
    let gen_dir = Path::new(RD).join("gen");
    let mut stale: Vec<String> = vec![];
    if let Ok(rd) = std::fs::read_dir(&gen_dir) {
        for e in rd.flatten() {
            let n = e.file_name().to_string_lossy().to_string();
            if n != name && n.starts_with(prefix) && n[prefix.len()..].chars().all(|c| c.is_ascii_digit()) {
                let _ = std::fs::remove_dir_all(e.path());
                stale.push(n);
            }
        }
    }
    for n in stale {
        let pat = format!("gen_{}", n);
        for sub in ["debug", "debug/deps", "debug/.fingerprint"] {
            if let Ok(rd) = std::fs::read_dir(Path::new(RD).join("target").join(sub)) {
                for e in rd.flatten() {
                    let f = e.file_name().to_string_lossy().to_string();
                    if f.starts_with(&format!("{}_b", pat)) || f.starts_with(&format!("{}-", pat)) {
                        if e.path().is_dir() {
                            let _ = std::fs::remove_dir_all(e.path());
                        } else {
                            let _ = std::fs::remove_file(e.path());
                        }
                    }
                }
            }
        }
    }
}

fn pipe_trunc(s: &str, n: usize) -> String {
    if s.len() <= n {
        s.to_string()
    } else {
        let mut k = n;
        while !s.is_char_boundary(k) {
            k -= 1;
        }
        format!("{} …", &s[..k])
    }
}

/// Indices K of the binaries `gen_<name>_bK` that cargo reports as not compiled.
fn crashed_bins(text: &str, name: &str) -> Vec<usize> {
    let pat = format!("(bin \"gen_{}_b", name);
    let mut out = vec![];
    let mut rest = text;
    while let Some(p) = rest.find(&pat) {
        rest = &rest[p + pat.len()..];
        let num: String = rest.chars().take_while(|c| c.is_ascii_digit()).collect();
        if let Ok(k) = num.parse::<usize>() {
            if !out.contains(&k) {
                out.push(k);
            }
        }
    }
    out
}

/// Same, for ready-made module bodies (each must define `pub fn run(&rt::Case) -> rt::Trace`).
pub fn build_modules(name: &str, mut modules: BTreeMap<usize, String>, n_bins: usize) -> GenBuild {
    let t0 = std::time::Instant::now();
    prune_siblings(name);
    let mut failed: BTreeMap<usize, String> = BTreeMap::new();
    for round in 0..6 {
        let groups = write_crate(name, &modules, n_bins);
        let (ok, per_mod, other) = cargo_build(name);
        if ok {
            let bins = groups
                .into_iter()
                .enumerate()
                .filter(|(_, g)| !g.is_empty())
                .map(|(b, g)| GenBin {
                    path: rd_bin(&format!("gen_{}_b{}", name, b), false),
                    specs: g,
                })
                .collect();
            return GenBuild {
                name: name.to_string(),
                bins,
                failed,
                build_secs: t0.elapsed().as_secs_f64(),
            };
        }
        if per_mod.is_empty() {
            // rustc itself crashed (stack overflow in its parser on deeply nested generated code):
            // find the binaries it died on and, if they hold several modules, rebuild those
            // modules one per binary to name the definitions responsible
            if other.contains("SIGSEGV") {
                let suspects: Vec<usize> = crashed_bins(&other, name).into_iter().filter_map(|b| groups.get(b)).flatten().copied().collect();
                let culprits: Vec<usize> = if suspects.len() <= 1 {
                    suspects
                } else {
                    let sub: BTreeMap<usize, String> = suspects.iter().filter_map(|i| modules.get(i).map(|m| (*i, m.clone()))).collect();
                    let groups2 = write_crate(name, &sub, sub.len());
                    let (ok2, _, other2) = cargo_build(name);
                    if ok2 {
                        vec![]
                    } else {
                        crashed_bins(&other2, name).into_iter().filter_map(|b| groups2.get(b)).flatten().copied().collect()
                    }
                };
                if !culprits.is_empty() {
                    for i in culprits {
                        modules.remove(&i);
                        failed.insert(i, "rustc crashes (SIGSEGV: stack overflow) while compiling the expansion of this definition".to_string());
                    }
                    continue;
                }
            }
            infra(&format!(
                "generated crate {} does not build and the error is not attributable to a module (round {}):\n{}",
                name, round, pipe_trunc(&other, 6000)
            ));
        }
        for (i, e) in per_mod {
            modules.remove(&i);
            failed.insert(i, e);
        }
    }
    infra(&format!("generated crate {} still fails after dropping modules", name));
}

pub fn remove_crate(name: &str) {
    let _ = std::fs::remove_dir_all(crate_dir(name));
    if let Ok(rd) = std::fs::read_dir(Path::new(RD).join("target/debug")) {
        let prefix = format!("gen_{}_b", name);
        for e in rd.flatten() {
            if e.file_name().to_string_lossy().starts_with(&prefix) {
                let _ = std::fs::remove_file(e.path());
            }
        }
    }
}
