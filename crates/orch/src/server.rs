//! Client of a generated lexer-server binary.

use crate::util::infra;
use proto::{dec_response, enc_request, read_frame, write_frame, Case, Trace};
use std::io::{BufReader, BufWriter};
use std::path::{Path, PathBuf};
use std::process::{Child, ChildStdin, ChildStdout, Command, Stdio};

#[derive(Debug, Clone, PartialEq)]
pub enum Outcome {
    Trace(Trace),
    /// The watchdog in the server saw no progress within the per-case budget.
    Hang,
    /// The process died (abort, stack overflow, memory).
    Crash(String),
    /// Not run: an earlier case of the same batch hung or crashed the process (the engine stops
    /// at the first violation of a definition, so these outcomes are never judged as verdicts).
    NotRun,
}

pub struct Server {
    bin: PathBuf,
    timeout_ms: u64,
    proc_: Option<(Child, BufWriter<ChildStdin>, BufReader<ChildStdout>)>,
    pub restarts: u32,
}

impl Server {
    pub fn new(bin: &Path, timeout_ms: u64) -> Server {
        Server {
            bin: bin.to_path_buf(),
            timeout_ms,
            proc_: None,
            restarts: 0,
        }
    }

    fn spawn(&mut self) {
        // Every other binary runs in an East-Asian locale: what a lexer returns must not depend on
        // the process environment (e.g. on locale-dependent display widths).
        let odd = self.bin.to_string_lossy().bytes().last().map(|b| b % 2 == 1).unwrap_or(false);
        let mut cmd = Command::new(&self.bin);
        if odd {
            cmd.env("LC_ALL", "ja_JP.UTF-8").env("LC_CTYPE", "ja_JP.UTF-8").env("LANG", "zh_CN.UTF-8");
        } else {
            cmd.env("LC_ALL", "C").env("LANG", "C");
        }
        let mut child = cmd
            .env("VERIF_CASE_TIMEOUT_MS", self.timeout_ms.to_string())
            .stdin(Stdio::piped())
            .stdout(Stdio::piped())
            .stderr(Stdio::null())
            .spawn()
            .unwrap_or_else(|e| infra(&format!("cannot start {}: {}", self.bin.display(), e)));
        let i = BufWriter::new(child.stdin.take().unwrap());
        let o = BufReader::new(child.stdout.take().unwrap());
        self.proc_ = Some((child, i, o));
    }

    fn kill(&mut self) -> Option<i32> {
        if let Some((mut c, i, _)) = self.proc_.take() {
            drop(i);
            let _ = c.kill();
            return c.wait().ok().and_then(|s| s.code());
        }
        None
    }

    /// Runs a batch; `Err(exit code)` if the process went away before answering.
    fn try_batch(&mut self, lexer_idx: u32, cases: &[&Case]) -> Result<Vec<Trace>, Option<i32>> {
        if self.proc_.is_none() {
            self.spawn();
        }
        let req = enc_request(lexer_idx, cases);
        let (child, i, o) = self.proc_.as_mut().unwrap();
        let ok = write_frame(i, &req).is_ok();
        let resp = if ok { read_frame(o).ok().flatten() } else { None };
        match resp {
            Some(buf) => {
                if buf.len() > 50_000_000 && std::env::var("VERIF_DEBUG_FRAMES").is_ok() {
                    let ts = dec_response(&buf);
                    let mut big: Vec<(usize, usize, usize, usize)> = ts.iter().enumerate().map(|(i, t)| (t.a.items.len() + t.a.log.len() * 4, i, t.a.items.len(), t.a.log.len())).collect();
                    big.sort();
                    big.reverse();
                    eprintln!("BIGFRAME {} bytes from {} lexer {} cases {}: top {:?} input lens {:?}", buf.len(), self.bin.display(), lexer_idx, cases.len(), &big[..big.len().min(4)], big.iter().take(4).map(|b| cases[b.1].input.len()).collect::<Vec<_>>());
                    return Ok(ts);
                }
                Ok(dec_response(&buf))
            }
            None => {
                let code = child.wait().ok().and_then(|s| s.code());
                self.proc_ = None;
                self.restarts += 1;
                Err(code)
            }
        }
    }

    /// Runs all cases; if the process dies on a batch, the batch is re-run case by case so that
    /// the hang / crash is attributed to one case and the others still get their traces.
    pub fn run(&mut self, lexer_idx: u32, cases: &[&Case]) -> Vec<Outcome> {
        match self.try_batch(lexer_idx, cases) {
            Ok(ts) if ts.len() == cases.len() => ts.into_iter().map(Outcome::Trace).collect(),
            Ok(_) => infra("lexer server answered with the wrong number of traces"),
            Err(_) if cases.len() > 1 => {
                let mut out = Vec::with_capacity(cases.len());
                let mut dead = false;
                for c in cases {
                    if dead {
                        out.push(Outcome::NotRun);
                        continue;
                    }
                    let o = self.run(lexer_idx, &[*c]);
                    if matches!(o[0], Outcome::Hang | Outcome::Crash(_)) {
                        dead = true;
                    }
                    out.extend(o);
                }
                out
            }
            Err(code) => {
                vec![if code == Some(3) {
                    Outcome::Hang
                } else {
                    Outcome::Crash(format!("exit code {:?}", code))
                }]
            }
        }
    }
}

impl Drop for Server {
    fn drop(&mut self) {
        self.kill();
    }
}
