//! Engine A: generate lexer definitions, compile them with the real macro, run generated cases
//! through the compiled lexers and judge each trace against the reference model.

use crate::genc;
use crate::pipe::{self, Expand};
use crate::server::{Outcome, Server};
use crate::util::*;
use oracle::gen::Profile;
use oracle::model::{run_model, Compiled, Facts, ModelOut};
use oracle::spec::{Flat, Spec};
use proptest::strategy::{Strategy, ValueTree};
use proptest::test_runner::{Config, RngAlgorithm, TestRng, TestRunner};
use proto::{Case, Ctor, Dec, Item, Run, Trace};
use serde_json::{json, Value};
use std::collections::{BTreeMap, HashSet};
use std::sync::Mutex;
use std::time::Duration;

pub fn runner(seed: u64, salt: &str) -> TestRunner {
    let mut bytes = [0u8; 32];
    let h1 = fnv64(format!("{}|{}", seed, salt).as_bytes());
    let h2 = fnv64(format!("{}#{}", salt, seed).as_bytes());
    bytes[..8].copy_from_slice(&h1.to_le_bytes());
    bytes[8..16].copy_from_slice(&h2.to_le_bytes());
    bytes[16..24].copy_from_slice(&seed.to_le_bytes());
    bytes[24..32].copy_from_slice(&(h1 ^ h2.rotate_left(17)).to_le_bytes());
    let cfg = Config {
        failure_persistence: None,
        ..Config::default()
    };
    TestRunner::new_with_rng(cfg, TestRng::from_seed(RngAlgorithm::ChaCha, &bytes))
}

pub fn sample<S: Strategy>(s: &S, r: &mut TestRunner) -> S::Value {
    s.new_tree(r).expect("strategy").current()
}

pub struct SpecCtx {
    pub idx: usize,
    pub profile: &'static str,
    pub spec: Spec,
    pub flat: Flat,
    /// One representative character per class signature of the definition's alphabet.
    pub reps: Vec<char>,
    /// Representatives that belong to no class of the definition.
    pub foreign: Vec<char>,
}

pub enum Verdict {
    Ok { nontrivial: bool },
    /// The case cannot be judged for this property (counted, not an alarm).
    Skip,
    Bad(String),
}

pub trait Prop: Sync {
    fn id(&self) -> &'static str;
    fn profiles(&self, tier: Tier) -> Vec<(Profile, usize)>;
    /// Definitions built by the property itself (instead of / in addition to the profiles).
    fn custom_specs(&self, _tier: Tier, _r: &mut TestRunner) -> Vec<(&'static str, Spec)> {
        vec![]
    }
    fn adjust_spec(&self, spec: Spec, _r: &mut TestRunner) -> Spec {
        spec
    }
    fn cases(&self, ctx: &SpecCtx, comp: &mut Compiled, r: &mut TestRunner, tier: Tier) -> Vec<Case>;
    /// The executions derived from one generated case (e.g. the same input through every
    /// constructor). The first variant is the case itself unless overridden.
    fn variants(&self, base: &Case) -> Vec<Case> {
        vec![base.clone()]
    }
    /// Judges one generated case from the outcomes of its variants (`models[i]` is the reference
    /// run of `vars[i]`).
    fn judge(&self, ctx: &SpecCtx, vars: &[Case], models: &[ModelOut], gots: &[Outcome]) -> Verdict;
    fn rule(&self) -> String;
    /// A well-formed definition the macro refused / rustc rejected: a violation of this property?
    fn unusable_is_violation(&self, _spec: &Spec) -> bool {
        false
    }
    fn min_nontrivial(&self, _tier: Tier) -> usize {
        2
    }
    fn per_case_timeout_ms(&self) -> u64 {
        20000
    }
    /// Facet name for the coverage-guided fuzzing stage of the thorough tier (None = no stage).
    fn fuzz_facet(&self) -> Option<&'static str> {
        None
    }
}

pub use oracle::cmp::*;

pub fn basic_health(got: &Outcome) -> Result<&Trace, String> {
    match got {
        Outcome::NotRun => Err("not run: an earlier case of the batch hung or crashed the lexer process".into()),
        Outcome::Hang => Err("lexer made no progress within the per-case budget (hang)".into()),
        Outcome::Crash(s) => Err(format!("lexer process died: {}", s)),
        Outcome::Trace(t) => {
            if let Some(p) = &t.panic {
                return Err(format!("panic: {}", p));
            }
            if t.a.runaway {
                return Err("more items than characters + 2 (runaway stream)".into());
            }
            Ok(t)
        }
    }
}

// ---------------------------------------------------------------------------------------------
// Case JSON

pub fn dec_to_json(d: &Dec) -> Value {
    match d {
        Dec::Ret => json!(["Ret"]),
        Dec::Cont => json!(["Cont"]),
        Dec::ResetCont => json!(["ResetCont"]),
        Dec::Switch(k) => json!(["Switch", k]),
        Dec::SwitchRet(k) => json!(["SwitchRet", k]),
        Dec::ResetRet => json!(["ResetRet"]),
        Dec::ResetSwitch(k) => json!(["ResetSwitch", k]),
        Dec::Err(k) => json!(["Err", k]),
    }
}

pub fn dec_from_json(v: &Value) -> Dec {
    let k = v[1].as_u64().unwrap_or(0) as u32;
    match v[0].as_str().unwrap_or("Ret") {
        "Cont" => Dec::Cont,
        "ResetCont" => Dec::ResetCont,
        "Switch" => Dec::Switch(k),
        "SwitchRet" => Dec::SwitchRet(k),
        "ResetRet" => Dec::ResetRet,
        "ResetSwitch" => Dec::ResetSwitch(k),
        "Err" => Dec::Err(k),
        _ => Dec::Ret,
    }
}

pub fn case_to_json(c: &Case) -> Value {
    json!({
        "ctor": c.ctor as u8,
        "input": c.input,
        "input_escaped": c.input.escape_unicode().to_string(),
        "script": c.script.iter().map(dec_to_json).collect::<Vec<_>>(),
        "clone_at": c.clone_at,
        "sched": c.sched,
        "extra_nexts": c.extra_nexts,
    })
}

pub fn case_from_json(v: &Value) -> Case {
    Case {
        ctor: Ctor::from_u8(v["ctor"].as_u64().unwrap_or(1) as u8),
        input: v["input"].as_str().unwrap_or("").to_string(),
        script: v["script"]
            .as_array()
            .map(|a| a.iter().map(dec_from_json).collect())
            .unwrap_or_default(),
        clone_at: v["clone_at"].as_u64().map(|x| x as u32),
        sched: v["sched"].as_u64().unwrap_or(0),
        extra_nexts: v["extra_nexts"].as_u64().unwrap_or(2) as u8,
    }
}

// ---------------------------------------------------------------------------------------------
// Shrinking (inputs and scripts; no recompilation)

pub fn shrink_case(case: Case, mut fails: impl FnMut(&Case) -> bool) -> Case {
    let mut cur = case;
    // fewer attempts for very long inputs (every attempt lexes the whole candidate twice)
    let mut budget: i32 = if cur.input.len() > 20_000 { 150 } else { 700 };
    let mut try_ = |c: Case, cur: &mut Case, budget: &mut i32| -> bool {
        if *budget <= 0 {
            return false;
        }
        *budget -= 1;
        if fails(&c) {
            *cur = c;
            true
        } else {
            false
        }
    };
    // non-input dimensions first
    if cur.clone_at.is_some() {
        let mut c = cur.clone();
        c.clone_at = None;
        c.sched = 0;
        try_(c, &mut cur, &mut budget);
    }
    if cur.ctor != Ctor::NewWithState {
        let mut c = cur.clone();
        c.ctor = Ctor::NewWithState;
        try_(c, &mut cur, &mut budget);
    }
    loop {
        let mut improved = false;
        // delta debugging on the input: remove chunks of decreasing size
        let mut chunk = (cur.input.chars().count() + 1) / 2;
        while chunk >= 1 && budget > 0 {
            let chars: Vec<char> = cur.input.chars().collect();
            let mut i = 0;
            let mut removed_any = false;
            while i < chars.len() && budget > 0 {
                let cur_chars: Vec<char> = cur.input.chars().collect();
                if i >= cur_chars.len() {
                    break;
                }
                let end = (i + chunk).min(cur_chars.len());
                let mut v = cur_chars[..i].to_vec();
                v.extend_from_slice(&cur_chars[end..]);
                let mut c = cur.clone();
                c.input = v.into_iter().collect();
                if try_(c, &mut cur, &mut budget) {
                    removed_any = true;
                    improved = true;
                } else {
                    i += chunk;
                }
            }
            if !removed_any || chunk == 1 {
                if chunk == 1 {
                    break;
                }
                chunk /= 2;
            }
        }
        // script
        if !cur.script.is_empty() {
            let mut c = cur.clone();
            c.script.clear();
            if try_(c, &mut cur, &mut budget) {
                improved = true;
            }
        }
        let mut i = cur.script.len();
        while i > 0 && budget > 0 {
            i -= 1;
            if i >= cur.script.len() {
                continue;
            }
            let mut c = cur.clone();
            c.script.remove(i);
            if try_(c, &mut cur, &mut budget) {
                improved = true;
                continue;
            }
            if cur.script[i] != Dec::Ret {
                let mut c = cur.clone();
                c.script[i] = Dec::Ret;
                if try_(c, &mut cur, &mut budget) {
                    improved = true;
                }
            }
        }
        // simplify characters of short inputs
        let chars: Vec<char> = cur.input.chars().collect();
        if chars.len() <= 40 {
            for (i, ch) in chars.iter().enumerate() {
                if !ch.is_ascii() && budget > 0 {
                    let mut v = chars.clone();
                    v[i] = 'x';
                    let mut c = cur.clone();
                    c.input = v.into_iter().collect();
                    if try_(c, &mut cur, &mut budget) {
                        improved = true;
                        break;
                    }
                }
            }
        }
        if !improved || budget <= 0 {
            return cur;
        }
    }
}

// ---------------------------------------------------------------------------------------------
// The engine

pub struct Violation {
    pub spec_idx: usize,
    pub summary: String,
    pub replay: Value,
    /// The (input/script-shrunk) failing case, kept for definition shrinking.
    pub case: Option<Case>,
}

#[derive(Default)]
struct Stats {
    evaluations: u64,
    skipped: u64,
    nontrivial: HashSet<u64>,
    facts: BTreeMap<&'static str, u64>,
    samples: Vec<Value>,
    violations: Vec<Violation>,
    hangs: u64,
    specs_run: u64,
}

fn add_facts(m: &mut BTreeMap<&'static str, u64>, f: &Facts) {
    let mut add = |k: &'static str, v: u64| {
        if v > 0 {
            *m.entry(k).or_insert(0) += 1;
        }
    };
    add("cases_with_rewind", f.rewinds as u64);
    add("cases_with_rewind_at_eoi", f.rewind_at_eoi as u64);
    add("cases_with_tie", f.ties as u64);
    add("cases_with_ctx_rejection", f.ctx_rejected as u64);
    add("cases_with_switch", f.switches as u64);
    add("cases_with_invalid", f.invalid as u64);
    add("cases_with_invalid_in_non_init", f.invalid_in_non_init as u64);
    add("cases_with_token_after_invalid", f.tokens_after_invalid as u64);
    add("cases_with_custom_error", f.custom as u64);
    add("cases_with_continue", f.continues as u64);
    add("cases_with_reset", f.resets as u64);
    add("cases_with_accumulated_token", f.accumulated_token as u64);
    add("cases_with_eoi_match", f.eoi_matches as u64);
    add("cases_with_eoi_error_in_non_init", f.eoi_error_non_init as u64);
    add("cases_with_action", f.actions as u64);
}

pub fn make_ctx(idx: usize, profile: &'static str, spec: Spec) -> Option<(SpecCtx, Compiled)> {
    let flat = spec.flatten().ok()?;
    let comp = Compiled::new(&flat);
    // class signature of every cell -> one representative each
    let alpha = &comp.arena.alphabet;
    let mut seen: BTreeMap<Vec<bool>, char> = BTreeMap::new();
    for cell in 0..alpha.n_cells() as u32 {
        if let Some(c) = alpha.representative(cell) {
            let sig: Vec<bool> = comp.classes.iter().map(|k| k.contains(c as u32)).collect();
            seen.entry(sig).or_insert(c);
        }
    }
    let mut reps = vec![];
    let mut foreign = vec![];
    for (sig, c) in seen {
        if sig.iter().any(|b| *b) {
            reps.push(c);
        } else {
            foreign.push(c);
        }
    }
    reps.sort();
    Some((
        SpecCtx {
            idx,
            profile,
            spec,
            flat,
            reps,
            foreign,
        },
        comp,
    ))
}

fn case_hash(spec_idx: usize, c: &Case) -> u64 {
    use std::hash::{Hash, Hasher};
    let mut h = std::collections::hash_map::DefaultHasher::new();
    spec_idx.hash(&mut h);
    c.hash(&mut h);
    h.finish()
}

pub fn replay_json(prop: &str, ctx: &SpecCtx, case: &Case, reason: &str, exp: &Trace, got: &Outcome) -> Value {
    json!({
        "property": prop,
        "engine": "A",
        "seed": seed() as i64,
        "profile": ctx.profile,
        "reason": reason,
        "lexer_source": ctx.spec.print_macro("Lexer"),
        "spec": serde_json::to_value(&ctx.spec).unwrap(),
        "case": case_to_json(case),
        "expected": fmt_run(&exp.a),
        "expected_clone": exp.b.as_ref().map(fmt_run),
        "got": match got {
            Outcome::Trace(t) => json!({"a": fmt_run(&t.a), "b": t.b.as_ref().map(fmt_run), "panic": t.panic}),
            Outcome::Hang => json!("HANG"),
            Outcome::Crash(s) => json!(format!("CRASH {}", s)),
            Outcome::NotRun => json!("NOT RUN"),
        },
    })
}

/// Replay tier: shrunk failures of earlier (seeded or real) defects, committed under
/// /verif/corpus/<ID>/*.json in the Engine A replay format. Each entry is re-run first, as a plain
/// regression case that does not depend on the random generators.
pub fn load_corpus(prop_id: &str) -> Vec<(Spec, Case)> {
    // VERIF_NO_CORPUS=1: used by tools/regress_seeds.sh to measure what the generators alone find
    if std::env::var("VERIF_NO_CORPUS").map(|v| v == "1").unwrap_or(false) {
        return vec![];
    }
    let dir = verif("corpus").join(prop_id);
    let mut files: Vec<std::path::PathBuf> = match std::fs::read_dir(&dir) {
        Ok(rd) => rd.flatten().map(|e| e.path()).filter(|p| p.extension().map(|x| x == "json").unwrap_or(false)).collect(),
        Err(_) => return vec![],
    };
    files.sort();
    let mut out = vec![];
    for f in files {
        let text = match std::fs::read_to_string(&f) {
            Ok(t) => t,
            Err(_) => continue,
        };
        let v: Value = match serde_json::from_str(&text) {
            Ok(v) => v,
            Err(_) => continue,
        };
        if v["engine"].as_str() != Some("A") || v["case"].is_null() {
            continue;
        }
        if let Ok(spec) = serde_json::from_value::<Spec>(v["spec"].clone()) {
            out.push((spec, case_from_json(&v["case"])));
        }
    }
    out
}

/// Generates the specs of all profiles; returns (profile name, spec) in a fixed order.
pub fn generate_specs(prop: &dyn Prop, tier: Tier) -> Vec<(&'static str, Spec)> {
    let mut out = vec![];
    {
        let mut r = runner(seed(), &format!("{}-custom-specs", prop.id()));
        out.extend(prop.custom_specs(tier, &mut r));
    }
    for (pi, (profile, n)) in prop.profiles(tier).into_iter().enumerate() {
        let mut r = runner(seed(), &format!("{}-specs-{}-{}", prop.id(), pi, profile.name));
        let strat = oracle::gen::spec_strategy(&profile);
        // Engine A is cheap (≈10^6 cases/s, ≈40 lexers compiled per second): both tiers run three
        // times the base number of definitions given by the property.
        let n = n * 3;
        for _ in 0..n {
            let mut s = sample(&strat, &mut r);
            if profile.name == "sink" {
                crate::props::sink_adjust(&mut s, &mut r);
            }
            if profile.name.starts_with("ctx") {
                // a share of the context profiles gets a delimiter-list context (ten or more
                // individually listed characters, optionally `| $`)
                let t = sample(&oracle::gen::tape_strategy(24), &mut r);
                if t.first().map(|x| x % 7 == 0).unwrap_or(false) {
                    let many = oracle::gen::many_char_set(t.get(1..).unwrap_or(&[]), 10 + t.len() % 6);
                    for rule in s.rules_mut() {
                        if rule.ctx.is_some() {
                            rule.ctx = Some(if t.len() % 2 == 0 { many.clone() } else { oracle::re::alt(many.clone(), oracle::re::Re::Eoi) });
                            break;
                        }
                    }
                }
            }
            let mut s = prop.adjust_spec(s, &mut r);
            // spelling: a quarter with the fewest parentheses the grammar allows (flat `a | b | c`
            // and `a b c` chains), an eighth with redundant ones; the trees are the same
            match out.len() % 8 {
                1 | 5 => s.paren = oracle::spec::ParenStyle::Minimal,
                3 => s.paren = oracle::spec::ParenStyle::Redundant((out.len() as u64).wrapping_mul(0x9E37_79B9_7F4A_7C15)),
                _ => {}
            }
            // header: a third of the definitions that log nothing and script nothing are
            // declared without a user state type (`pub Lexer -> u32;`)
            if out.len() % 3 == 2 && s.can_be_stateless() {
                s.stateless = true;
            }
            out.push((profile.name, s));
        }
    }
    out
}

/// Oracle self-test: the derivative-based reference and the recursion-based reference must agree
/// on every case. A disagreement is an infrastructure failure (exit 2), never a verdict.
pub fn oracle_selftest(prop: &dyn Prop, specs: &[(&'static str, Spec)], tier: Tier) -> Result<u64, String> {
    let mut n = 0u64;
    let step = (specs.len() / 40).max(1);
    for (si, (pname, spec)) in specs.iter().enumerate().step_by(step) {
        let (ctx, mut comp) = match make_ctx(si, pname, spec.clone()) {
            Some(x) => x,
            None => continue,
        };
        let mut other = oracle::ends::EndsRef::new(&ctx.flat);
        let mut r = runner(seed(), &format!("{}-selftest-{}", prop.id(), si));
        let cases = prop.cases(&ctx, &mut comp, &mut r, tier);
        let cstep = (cases.len() / 150).max(1);
        for c in cases.iter().step_by(cstep) {
            if c.input.chars().count() > 400 {
                continue;
            }
            for v in prop.variants(c) {
                let a = run_model(&mut comp, &v);
                let b = run_model(&mut other, &v);
                n += 1;
                if a.trace != b.trace || a.facts != b.facts {
                    return Err(format!(
                        "the two reference models disagree on {:?} script {:?} for\n{}\nderivatives: {}\nrecursion:   {}",
                        v.input,
                        v.script,
                        spec.print_macro("Lexer"),
                        fmt_run(&a.trace.a),
                        fmt_run(&b.trace.a)
                    ));
                }
            }
        }
    }
    Ok(n)
}

// ---------------------------------------------------------------------------------------------
// Definition shrinking (needs recompilation: candidates are compiled together, batch by batch)

fn re_children_variants(re: &oracle::re::Re, out: &mut Vec<oracle::re::Re>) {
    use oracle::re::Re;
    // every tree obtained by replacing one node by one of its children
    fn go(re: &Re, rebuild: &dyn Fn(Re) -> Re, out: &mut Vec<Re>) {
        match re {
            Re::Star(a) | Re::Plus(a) | Re::Opt(a) => {
                out.push(rebuild((**a).clone()));
                let mk: Box<dyn Fn(Re) -> Re> = match re {
                    Re::Star(_) => Box::new(|x| rebuild(Re::Star(Box::new(x)))),
                    Re::Plus(_) => Box::new(|x| rebuild(Re::Plus(Box::new(x)))),
                    _ => Box::new(|x| rebuild(Re::Opt(Box::new(x)))),
                };
                go(a, &*mk, out);
            }
            Re::Cat(a, b) | Re::Alt(a, b) | Re::Diff(a, b) => {
                out.push(rebuild((**a).clone()));
                if !matches!(re, Re::Diff(..)) {
                    out.push(rebuild((**b).clone()));
                }
                let (a2, b2) = ((**a).clone(), (**b).clone());
                let tag = match re {
                    Re::Cat(..) => 0,
                    Re::Alt(..) => 1,
                    _ => 2,
                };
                let mk2 = move |x: Re, y: Re| match tag {
                    0 => Re::Cat(Box::new(x), Box::new(y)),
                    1 => Re::Alt(Box::new(x), Box::new(y)),
                    _ => Re::Diff(Box::new(x), Box::new(y)),
                };
                let b3 = b2.clone();
                let mk_a = |x: Re| rebuild(mk2(x, b3.clone()));
                go(a, &mk_a, out);
                let mk_b = |y: Re| rebuild(mk2(a2.clone(), y));
                go(b, &mk_b, out);
            }
            Re::Str(s) if s.chars().count() > 1 => {
                let cs: Vec<char> = s.chars().collect();
                out.push(rebuild(Re::Str(cs[..cs.len() - 1].iter().collect())));
                out.push(rebuild(Re::Char(cs[0])));
            }
            Re::Set(items) if items.len() > 1 => {
                for k in 0..items.len() {
                    let mut v = items.clone();
                    v.remove(k);
                    out.push(rebuild(Re::Set(v)));
                }
            }
            _ => {}
        }
    }
    go(re, &|x| x, out);
}

fn spec_size(spec: &Spec) -> usize {
    let mut n = 0;
    for t in &spec.items {
        match t {
            oracle::spec::Top::Let(_, re) => n += 2 + re.size(),
            oracle::spec::Top::ErrorType => n += 1,
            oracle::spec::Top::Rule(r) => n += 2 + r.re.size() + r.ctx.as_ref().map(|c| 1 + c.size()).unwrap_or(0) + if r.kind == oracle::spec::Kind::Simple { 0 } else { 1 },
            oracle::spec::Top::RuleSet { items, .. } => {
                n += 2;
                for i in items {
                    match i {
                        oracle::spec::Inner::Let(_, re) => n += 2 + re.size(),
                        oracle::spec::Inner::Rule(r) => n += 2 + r.re.size() + r.ctx.as_ref().map(|c| 1 + c.size()).unwrap_or(0) + if r.kind == oracle::spec::Kind::Simple { 0 } else { 1 },
                    }
                }
            }
        }
    }
    n
}

/// One-step reductions of a definition (all well-formed by construction).
fn spec_reductions(spec: &Spec) -> Vec<Spec> {
    use oracle::spec::{Inner, Kind, ParenStyle, Top};
    let mut out: Vec<Spec> = vec![];
    // inline all variables
    if spec.items.iter().any(|t| matches!(t, Top::Let(..)) || matches!(t, Top::RuleSet { items, .. } if items.iter().any(|i| matches!(i, Inner::Let(..))))) {
        if let Ok(flat) = spec.flatten() {
            let mut s = spec.clone();
            let mut it = flat.sets.iter().flat_map(|x| x.rules.iter());
            s.items.retain(|t| !matches!(t, Top::Let(..)));
            for t in s.items.iter_mut() {
                match t {
                    Top::Rule(r) => {
                        if let Some(f) = it.next() {
                            r.re = f.re.clone();
                            r.ctx = f.ctx.clone();
                        }
                    }
                    Top::RuleSet { items, .. } => {
                        items.retain(|i| !matches!(i, Inner::Let(..)));
                        for i in items.iter_mut() {
                            if let Inner::Rule(r) = i {
                                if let Some(f) = it.next() {
                                    r.re = f.re.clone();
                                    r.ctx = f.ctx.clone();
                                }
                            }
                        }
                    }
                    _ => {}
                }
            }
            out.push(s);
        }
    }
    if spec.paren != ParenStyle::Full {
        let mut s = spec.clone();
        s.paren = ParenStyle::Full;
        out.push(s);
    }
    if spec.stateless {
        let mut s = spec.clone();
        s.stateless = false;
        out.push(s);
    }
    let n_rules = spec.n_rules();
    // drop one rule
    for k in 0..n_rules {
        let mut s = spec.clone();
        let mut idx = 0;
        let mut removed = false;
        let mut new_items = vec![];
        for t in s.items.into_iter() {
            match t {
                Top::Rule(r) => {
                    if idx == k {
                        removed = true;
                    } else {
                        new_items.push(Top::Rule(r));
                    }
                    idx += 1;
                }
                Top::RuleSet { name, items } => {
                    let mut ni = vec![];
                    for i in items {
                        match i {
                            Inner::Rule(r) => {
                                if idx == k {
                                    removed = true;
                                } else {
                                    ni.push(Inner::Rule(r));
                                }
                                idx += 1;
                            }
                            other => ni.push(other),
                        }
                    }
                    new_items.push(Top::RuleSet { name, items: ni });
                }
                other => new_items.push(other),
            }
        }
        s.items = new_items;
        if removed && s.n_rules() >= 1 {
            out.push(s);
        }
    }
    // per rule: drop the context, simplify the kind, replace a node by a child
    for k in 0..n_rules {
        let base_rule = spec.rules()[k].clone();
        if base_rule.ctx.is_some() {
            let mut s = spec.clone();
            s.rules_mut()[k].ctx = None;
            out.push(s);
        }
        if base_rule.kind != Kind::Simple && !base_rule.kind.uses_switch() {
            let mut s = spec.clone();
            s.rules_mut()[k].kind = Kind::Simple;
            out.push(s);
        }
        if base_rule.re.has_var() || base_rule.ctx.as_ref().map(|c| c.has_var()).unwrap_or(false) {
            continue;
        }
        let mut vs = vec![];
        re_children_variants(&base_rule.re, &mut vs);
        for v in vs {
            if v.class().map(|c| c.is_empty()).unwrap_or(false) {
                continue;
            }
            let mut s = spec.clone();
            s.rules_mut()[k].re = oracle::gen::fix_nullable(v, 'a');
            out.push(s);
        }
        if let Some(c) = &base_rule.ctx {
            let mut vs = vec![];
            re_children_variants(c, &mut vs);
            for v in vs {
                if v.class().map(|c| c.is_empty()).unwrap_or(false) {
                    continue;
                }
                let mut s = spec.clone();
                s.rules_mut()[k].ctx = Some(v);
                out.push(s);
            }
        }
    }
    let mut seen = HashSet::new();
    out.retain(|s| s != spec && seen.insert(serde_json::to_string(s).unwrap()));
    out.sort_by_key(spec_size);
    out.truncate(64);
    out
}

/// Greedy delta debugging on the definition; returns the smallest failing (definition, case,
/// reason, replay JSON) found within the round budget.
pub fn shrink_spec(prop: &dyn Prop, pname: &'static str, spec: Spec, case: Case, rounds: usize) -> Option<(Spec, Case, String, Value)> {
    let mut cur = (spec, case);
    let mut best: Option<(Spec, Case, String, Value)> = None;
    for round in 0..rounds {
        let cands = spec_reductions(&cur.0);
        if cands.is_empty() {
            break;
        }
        let named: Vec<(&'static str, Spec)> = cands.into_iter().map(|s| (pname, s)).collect();
        let prep = prepare(&format!("shrink_{}", prop.id().to_lowercase()), named);
        let found: Mutex<Vec<(usize, Spec, Case, String, Value)>> = Mutex::new(vec![]);
        std::thread::scope(|sc| {
            for bin in &prep.build.bins {
                let found = &found;
                let prep = &prep;
                let cur_case = &cur.1;
                sc.spawn(move || {
                    let mut server = Server::new(&bin.path, prop.per_case_timeout_ms());
                    for (lexer_idx, &si) in bin.specs.iter().enumerate() {
                        let spec = &prep.specs[si].1;
                        let (ctx, mut comp) = match make_ctx(si, pname, spec.clone()) {
                            Some(x) => x,
                            None => continue,
                        };
                        let mut eval = |server: &mut Server, comp: &mut Compiled, base: &Case| -> (Verdict, Vec<ModelOut>, Vec<Outcome>) {
                            let vars = prop.variants(base);
                            let refs: Vec<&Case> = vars.iter().collect();
                            let outs = server.run(lexer_idx as u32, &refs);
                            let models: Vec<ModelOut> = vars.iter().map(|c| run_model(comp, c)).collect();
                            (prop.judge(&ctx, &vars, &models, &outs), models, outs)
                        };
                        // the known failing case first, then a small fresh search
                        let mut failing: Option<Case> = None;
                        if let (Verdict::Bad(_), _, _) = eval(&mut server, &mut comp, cur_case) {
                            failing = Some(cur_case.clone());
                        } else {
                            let mut r = runner(seed(), &format!("{}-shrink-{}-{}", prop.id(), round, si));
                            let cases = prop.cases(&ctx, &mut comp, &mut r, Tier::Quick);
                            for c in cases.iter().take(4000) {
                                if c.input.len() > 200 {
                                    continue;
                                }
                                if let (Verdict::Bad(_), _, _) = eval(&mut server, &mut comp, c) {
                                    failing = Some(c.clone());
                                    break;
                                }
                            }
                        }
                        if let Some(f) = failing {
                            let small = shrink_case(f, |c| comp.affordable(c) && matches!(eval(&mut server, &mut comp, c).0, Verdict::Bad(_)));
                            if let (Verdict::Bad(reason), models, outs) = eval(&mut server, &mut comp, &small) {
                                let rp = replay_json(prop.id(), &ctx, &small, &reason, &models[0].trace, &outs[0]);
                                found.lock().unwrap().push((spec_size(spec), spec.clone(), small, reason, rp));
                            }
                        }
                    }
                });
            }
        });
        let mut found = found.into_inner().unwrap();
        found.sort_by(|a, b| (a.0, a.2.input.len(), serde_json::to_string(&a.1).unwrap()).cmp(&(b.0, b.2.input.len(), serde_json::to_string(&b.1).unwrap())));
        match found.into_iter().next() {
            Some((_, s, c, reason, rp)) => {
                cur = (s.clone(), c.clone());
                best = Some((s, c, reason, rp));
            }
            None => break,
        }
    }
    best
}

pub struct Prepared {
    pub specs: Vec<(&'static str, Spec)>,
    pub usable: Vec<usize>,
    pub excluded: Vec<(usize, String)>,
    pub build: genc::GenBuild,
}

/// Pre-screens (macro in-process, watchdog) and compiles the specs.
pub fn prepare(crate_name: &str, specs: Vec<(&'static str, Spec)>) -> Prepared {
    pipe::ensure_built();
    let defs: Vec<String> = specs
        .iter()
        .map(|(_, s)| pipe::macro_body(&s.print_macro("Lexer")))
        .collect();
    let mut res = pipe::expand_all(&defs, Duration::from_secs(20), false, 12);
    // A timeout or a dead worker under load is re-tried alone with a tripled budget before the
    // definition is given up (a time budget hit must not turn into a verdict by accident).
    let mut retried = 0;
    for i in 0..res.len() {
        if matches!(res[i], Expand::Timeout(_) | Expand::Died) && retried < 5 {
            retried += 1;
            let mut w = pipe::Worker::new();
            res[i] = w.expand(&defs[i], false, Duration::from_secs(60));
        }
    }
    let mut usable = vec![];
    let mut excluded = vec![];
    for (i, r) in res.iter().enumerate() {
        match r {
            // rustc needs minutes and gigabytes for multi-megabyte state machines; such
            // expansions (normal ones are 5-300 KB) are kept away from it — no verdict
            Expand::Ok { len, .. } if *len > 6_000_000 => {
                excluded.push((i, format!("expansion is {} bytes: not handed to rustc", len)))
            }
            Expand::Ok { .. } => usable.push(i),
            other => excluded.push((i, format!("macro expansion: {}", other.short()))),
        }
    }
    let map: BTreeMap<usize, &Spec> = usable.iter().map(|i| (*i, &specs[*i].1)).collect();
    let n_bins = (map.len() / 150).clamp(16, 96);
    let build = genc::build(crate_name, &map, n_bins);
    for (i, e) in &build.failed {
        excluded.push((*i, format!("rustc: {}", pipe::trunc(e, 600))));
    }
    let usable: Vec<usize> = usable
        .into_iter()
        .filter(|i| !build.failed.contains_key(i))
        .collect();
    Prepared {
        specs,
        usable,
        excluded,
        build,
    }
}

pub fn run(prop: &dyn Prop, tier: Tier) -> i32 {
    let (ev, code) = run_collect(prop, tier);
    ev.write();
    if code == 2 {
        std::process::exit(2);
    }
    code
}

/// Runs the property and returns the evidence (not yet written) and the exit code
/// (0 held, 1 violation reported, 2 infrastructure trouble).
pub fn run_collect(prop: &dyn Prop, tier: Tier) -> (Evidence, i32) {
    let mut ev = Evidence::new(prop.id(), tier);
    let mut specs = generate_specs(prop, tier);
    let mut corpus_cases: std::collections::HashMap<usize, Vec<Case>> = std::collections::HashMap::new();
    for (spec, case) in load_corpus(prop.id()) {
        corpus_cases.entry(specs.len()).or_default().push(case);
        specs.push(("corpus", spec));
    }
    let n_corpus = corpus_cases.len();
    let n_specs = specs.len();
    let selftest_cases = match oracle_selftest(prop, &specs, tier) {
        Ok(n) => n,
        Err(e) => {
            let msg = format!("oracle self-test failed (no verdict): {}", e);
            eprintln!("INFRA-ERROR: {}", msg);
            println!("INFRA-ERROR: oracle self-test failed (no verdict)");
            ev.set("evaluations", json!(1));
            ev.set("distinct_nontrivial", json!(0));
            ev.set("rule", json!(prop.rule()));
            ev.set("samples", json!([msg]));
            return (ev, 2);
        }
    };
    let crate_name = format!("{}_{}_{}", prop.id().to_lowercase(), tier.name(), seed());
    let prep = prepare(&crate_name, specs);
    eprintln!(
        "[{}] {} specs generated, {} usable, {} excluded, build {:.1}s",
        prop.id(),
        n_specs,
        prep.usable.len(),
        prep.excluded.len(),
        prep.build.build_secs
    );

    let total = Mutex::new(Stats::default());

    // Definitions that are well-formed by construction but unusable.
    let mut unusable_violations = vec![];
    for (i, why) in &prep.excluded {
        if prop.unusable_is_violation(&prep.specs[*i].1) {
            unusable_violations.push((*i, why.clone()));
        }
    }

    std::thread::scope(|s| {
        for bin in &prep.build.bins {
            let total = &total;
            let prep = &prep;
            let corpus_cases = &corpus_cases;
            s.spawn(move || {
                let mut server = Server::new(&bin.path, prop.per_case_timeout_ms());
                let mut st = Stats::default();
                for (lexer_idx, &si) in bin.specs.iter().enumerate() {
                    let (pname, spec) = &prep.specs[si];
                    let (ctx, mut comp) = match make_ctx(si, pname, spec.clone()) {
                        Some(x) => x,
                        None => continue,
                    };
                    let mut r = runner(seed(), &format!("{}-cases-{}", prop.id(), si));
                    let spec_t0 = std::time::Instant::now();
                    let mut cases = prop.cases(&ctx, &mut comp, &mut r, tier);
                    if let Some(extra) = corpus_cases.get(&si) {
                        // saved failing cases first
                        let mut v = extra.clone();
                        v.append(&mut cases);
                        cases = v;
                    }
                    if std::env::var("VERIF_DEBUG").is_ok() {
                        eprintln!("[debug] spec {} ({} cases generated in {:.1}s)", si, cases.len(), spec_t0.elapsed().as_secs_f64());
                    }
                    st.specs_run += 1;
                    let mut violated = false;
                    let eval_group = |server: &mut Server, comp: &mut Compiled, base: &Case| -> (Vec<Case>, Vec<ModelOut>, Vec<Outcome>, Verdict) {
                        let vars = prop.variants(base);
                        let refs: Vec<&Case> = vars.iter().collect();
                        let outs = server.run(lexer_idx as u32, &refs);
                        let models: Vec<ModelOut> = vars.iter().map(|c| run_model(comp, c)).collect();
                        let v = prop.judge(&ctx, &vars, &models, &outs);
                        (vars, models, outs, v)
                    };
                    for chunk in cases.chunks(256) {
                        let groups: Vec<Vec<Case>> = chunk.iter().map(|b| prop.variants(b)).collect();
                        let refs: Vec<&Case> = groups.iter().flatten().collect();
                        let outs = server.run(lexer_idx as u32, &refs);
                        let mut off = 0;
                        for (base, vars) in chunk.iter().zip(groups.iter()) {
                            let gots = &outs[off..off + vars.len()];
                            off += vars.len();
                            let models: Vec<ModelOut> = vars.iter().map(|c| run_model(&mut comp, c)).collect();
                            st.evaluations += vars.len() as u64;
                            if gots.iter().any(|g| matches!(g, Outcome::Hang)) {
                                st.hangs += 1;
                            }
                            match prop.judge(&ctx, vars, &models, gots) {
                                Verdict::Ok { nontrivial } => {
                                    add_facts(&mut st.facts, &models[0].facts);
                                    if base.input.len() >= 256 {
                                        *st.facts.entry("input_256_bytes_or_more").or_insert(0) += 1;
                                    }
                                    if base.input.len() > 65_536 {
                                        *st.facts.entry("input_over_65536_bytes").or_insert(0) += 1;
                                    }
                                    if nontrivial {
                                        let h = case_hash(si, base);
                                        if st.nontrivial.insert(h) && st.samples.len() < 3 {
                                            let mut cj = case_to_json(base);
                                            let n_chars = base.input.chars().count();
                                            if n_chars > 300 {
                                                cj["input"] = json!(pipe::trunc(&base.input, 300));
                                                cj["input_escaped"] = json!(pipe::trunc(&base.input, 100).escape_unicode().to_string());
                                                cj["input_chars"] = json!(n_chars);
                                            }
                                            let mut short = models[0].trace.a.clone();
                                            short.items.truncate(40);
                                            short.log.truncate(40);
                                            st.samples.push(json!({
                                                "lexer": ctx.spec.print_macro("Lexer"),
                                                "case": cj,
                                                "trace": pipe::trunc(&fmt_run(&short), 1500),
                                                "items_in_trace": models[0].trace.a.items.len(),
                                            }));
                                        }
                                    }
                                }
                                Verdict::Skip => st.skipped += 1,
                                Verdict::Bad(reason) => {
                                    // shrink input/script against the same lexer (long inputs: only
                                    // for the first dozen violating definitions of the run — each
                                    // attempt lexes the whole candidate, and one defect often breaks
                                    // hundreds of definitions)
                                    static LONG_SHRINKS: std::sync::atomic::AtomicUsize = std::sync::atomic::AtomicUsize::new(0);
                                    let do_shrink = base.input.len() < 5_000 || LONG_SHRINKS.fetch_add(1, std::sync::atomic::Ordering::Relaxed) < 12;
                                    let shrunk = if do_shrink {
                                        shrink_case(base.clone(), |c| {
                                            comp.affordable(c) && matches!(eval_group(&mut server, &mut comp, c).3, Verdict::Bad(_))
                                        })
                                    } else {
                                        base.clone()
                                    };
                                    let (vars2, models2, outs2, v2) = eval_group(&mut server, &mut comp, &shrunk);
                                    let reason2 = match v2 {
                                        Verdict::Bad(r) => r,
                                        _ => reason.clone(),
                                    };
                                    let mut rp = replay_json(prop.id(), &ctx, &shrunk, &reason2, &models2[0].trace, &outs2[0]);
                                    if vars2.len() > 1 {
                                        rp["variants"] = json!(vars2
                                            .iter()
                                            .zip(outs2.iter())
                                            .map(|(c, o)| json!({"case": case_to_json(c), "got": match o {
                                                Outcome::Trace(t) => json!({"a": fmt_run(&t.a), "b": t.b.as_ref().map(fmt_run), "panic": t.panic}),
                                                other => json!(format!("{:?}", other)),
                                            }}))
                                            .collect::<Vec<_>>());
                                    }
                                    st.violations.push(Violation {
                                        spec_idx: si,
                                        summary: format!(
                                            "{} | input {:?} script {:?}",
                                            pipe::trunc(&reason2, 400), pipe::trunc(&shrunk.input, 80), shrunk.script
                                        ),
                                        replay: rp,
                                        case: Some(shrunk.clone()),
                                    });
                                    violated = true;
                                    break;
                                }
                            }
                        }
                        if violated {
                            break;
                        }
                    }
                }
                let mut t = total.lock().unwrap();
                t.evaluations += st.evaluations;
                t.skipped += st.skipped;
                t.hangs += st.hangs;
                t.specs_run += st.specs_run;
                t.nontrivial.extend(st.nontrivial);
                for (k, v) in st.facts {
                    *t.facts.entry(k).or_insert(0) += v;
                }
                for s in st.samples {
                    if t.samples.len() < 6 {
                        t.samples.push(s);
                    }
                }
                t.violations.extend(st.violations);
            });
        }
    });

    let mut t = total.into_inner().unwrap();
    // Thorough tier: coverage-guided stage (Engine D) on a batch of the compiled definitions.
    let mut fuzz_info = json!("not part of this tier");
    if let (Tier::Thorough, Some(facet)) = (tier, prop.fuzz_facet()) {
        if t.violations.is_empty() {
            let batch: Vec<usize> = prep.usable.iter().copied().filter(|i| prep.specs[*i].1.n_rules() > 0).step_by((prep.usable.len() / 40).max(1)).take(40).collect();
            let specs_b: Vec<&Spec> = batch.iter().map(|i| &prep.specs[*i].1).collect();
            let mut seeds = vec![];
            for (k, si) in batch.iter().enumerate() {
                if let Some((ctx, mut comp)) = make_ctx(*si, prep.specs[*si].0, prep.specs[*si].1.clone()) {
                    let mut r = runner(seed(), &format!("{}-fuzzseeds-{}", prop.id(), si));
                    let cs = prop.cases(&ctx, &mut comp, &mut r, Tier::Quick);
                    let stepc = (cs.len() / 6).max(1);
                    for c in cs.iter().step_by(stepc).take(6) {
                        if c.input.len() <= 100 {
                            seeds.push((k, c.clone()));
                        }
                    }
                }
            }
            let fr = crate::engd::lex_inputs_stage(prop.id(), facet, &specs_b, &seeds, 1_200_000, 2400);
            let mut confirmed = 0;
            for (k, case, msg) in &fr.crashes {
                // re-judge through the ordinary path so that the verdict is this property's
                let si = batch[*k];
                if let Some((bin, lexer_idx)) = prep.build.bins.iter().find_map(|b| b.specs.iter().position(|x| *x == si).map(|p| (b, p))) {
                    if let Some((ctx, mut comp)) = make_ctx(si, prep.specs[si].0, prep.specs[si].1.clone()) {
                        let mut server = Server::new(&bin.path, prop.per_case_timeout_ms());
                        let vars = prop.variants(case);
                        let refs: Vec<&Case> = vars.iter().collect();
                        let outs = server.run(lexer_idx as u32, &refs);
                        let models: Vec<ModelOut> = vars.iter().map(|c| run_model(&mut comp, c)).collect();
                        if let Verdict::Bad(reason) = prop.judge(&ctx, &vars, &models, &outs) {
                            confirmed += 1;
                            t.violations.push(Violation {
                                spec_idx: si,
                                summary: format!("(found by the coverage-guided stage) {} | input {:?} script {:?}", pipe::trunc(&reason, 300), case.input, case.script),
                                replay: replay_json(prop.id(), &ctx, case, &format!("{} [libFuzzer: {}]", reason, pipe::trunc(msg, 200)), &models[0].trace, &outs[0]),
                                case: Some(case.clone()),
                            });
                        }
                    }
                }
            }
            fuzz_info = json!({"ran": fr.ran, "note": fr.note, "executions": fr.runs, "secs": fr.secs, "lexers_in_target": specs_b.len(), "seed_corpus": seeds.len(), "final_corpus": fr.corpus_files, "artifacts": fr.crashes.len(), "artifacts_confirmed_by_judge": confirmed, "facet": facet});
            eprintln!("[{}] fuzz stage: {}", prop.id(), fuzz_info);
            t.evaluations += fr.runs;
        }
    }
    t.violations.sort_by_key(|v| v.spec_idx);
    let mut n_viol = 0;
    // Shrink the definition of the first violation (bounded: up to 6 rounds of recompilation).
    if let Some(v) = t.violations.first_mut() {
        if let Some(case) = v.case.clone() {
            let (pname, spec) = prep.specs[v.spec_idx].clone();
            let t0 = std::time::Instant::now();
            if let Some((s2, c2, reason, rp)) = shrink_spec(prop, pname, spec, case, 6) {
                let mut rp = rp;
                rp["shrunk_from"] = json!({"lexer_source": prep.specs[v.spec_idx].1.print_macro("Lexer"), "original_summary": v.summary, "shrink_secs": t0.elapsed().as_secs_f64()});
                v.summary = format!(
                    "{} | input {:?} script {:?} | definition shrunk to {} rule(s)",
                    pipe::trunc(&reason, 400),
                    pipe::trunc(&c2.input, 80),
                    c2.script,
                    s2.n_rules()
                );
                v.replay = rp;
            }
        }
    }
    for v in t.violations.iter().take(5) {
        let path = write_replay(prop.id(), &v.replay);
        report_violation(prop.id(), &path, &v.summary);
        n_viol += 1;
    }
    for (i, why) in unusable_violations.iter().take(3) {
        let body = json!({
            "property": prop.id(),
            "engine": "A-build",
            "seed": seed() as i64,
            "reason": format!("well-formed definition is unusable: {}", why),
            "lexer_source": prep.specs[*i].1.print_macro("Lexer"),
            "spec": serde_json::to_value(&prep.specs[*i].1).unwrap(),
        });
        let path = write_replay(prop.id(), &body);
        report_violation(prop.id(), &path, &format!("well-formed definition is unusable: {}", pipe::trunc(why, 300)));
        n_viol += 1;
    }
    let n_viol_total = t.violations.len() + unusable_violations.len();

    ev.set("evaluations", json!(t.evaluations));
    ev.set("distinct_nontrivial", json!(t.nontrivial.len()));
    ev.set("rule", json!(prop.rule()));
    ev.set("samples", json!(t.samples));
    ev.set("programs", json!(t.specs_run));
    ev.set("programs_generated", json!(n_specs));
    ev.set("programs_excluded", json!(prep.excluded.len()));
    ev.set(
        "excluded_reasons",
        json!(prep.excluded.iter().take(5).map(|(i, w)| format!("spec {}: {}", i, pipe::trunc(w, 200))).collect::<Vec<_>>()),
    );
    ev.set("cases_skipped_unjudgeable", json!(t.skipped));
    ev.set("class_histogram", json!(t.facts));
    ev.set("build_secs", json!(prep.build.build_secs));
    ev.set("exhaustive", json!(false));
    ev.set("oracle_selftest_cases", json!(selftest_cases));
    ev.set("replay_tier_entries", json!(n_corpus));
    ev.set("coverage_guided_stage", fuzz_info);
    ev.assumptions = vec![
        "rustc, cargo, proptest, unicode-width and the oracle crate (reference model) are trusted; the reference is cross-checked on a sample of this run's cases against a second, independently written reference (oracle_selftest_cases)".into(),
        "definitions are well-formed by construction: no nullable rule, no empty class, `$` only in tail position".into(),
    ];
    ev.violations = n_viol_total as i64;

    eprintln!(
        "[{}] {} evaluations on {} lexers, {} distinct non-trivial, {} skipped, {} violations",
        prop.id(),
        t.evaluations,
        t.specs_run,
        t.nontrivial.len(),
        t.skipped,
        n_viol_total
    );
    if n_viol > 0 {
        return (ev, 1);
    }
    if prep.excluded.len() * 5 > n_specs {
        let msg = format!(
            "{} of {} generated definitions were unusable (first: {}) — the batch is too thin to decide {}; see C12 for the cause",
            prep.excluded.len(),
            n_specs,
            prep.excluded.first().map(|(_, w)| pipe::trunc(w, 300)).unwrap_or_default(),
            prop.id()
        );
        eprintln!("INFRA-ERROR: {}", msg);
        println!("INFRA-ERROR: {}", msg);
        return (ev, 2);
    }
    if t.nontrivial.len() < prop.min_nontrivial(tier) {
        let msg = format!(
            "generator starved: only {} distinct non-trivial cases for {}",
            t.nontrivial.len(),
            prop.id()
        );
        eprintln!("INFRA-ERROR: {}", msg);
        println!("INFRA-ERROR: {}", msg);
        return (ev, 2);
    }
    (ev, 0)
}

/// Replays one case of an Engine A replay file. Returns the exit code.
pub fn replay(prop: &dyn Prop, v: &Value) -> i32 {
    let spec: Spec = serde_json::from_value(v["spec"].clone())
        .unwrap_or_else(|e| infra(&format!("replay file has no valid spec: {}", e)));
    let specs = vec![("replay", spec)];
    let prep = prepare(&format!("replay_{}", prop.id().to_lowercase()), specs);
    if prep.usable.is_empty() {
        println!(
            "replay: definition unusable: {}",
            prep.excluded.first().map(|(_, w)| w.clone()).unwrap_or_default()
        );
        if prop.unusable_is_violation(&prep.specs[0].1) {
            println!("VIOLATION property={} replay=<given file>", prop.id());
            return 1;
        }
        return 2;
    }
    if v["case"].is_null() {
        println!("replay: definition is usable now; no violation");
        return 0;
    }
    let case = case_from_json(&v["case"]);
    let (ctx, mut comp) = make_ctx(0, "replay", prep.specs[0].1.clone()).unwrap();
    let mut server = Server::new(&prep.build.bins[0].path, 20000);
    let vars = prop.variants(&case);
    let refs: Vec<&Case> = vars.iter().collect();
    let outs = server.run(0, &refs);
    let models: Vec<ModelOut> = vars.iter().map(|c| run_model(&mut comp, c)).collect();
    println!("expected: {}", pipe::trunc(&fmt_run(&models[0].trace.a), 3000));
    for o in &outs {
        if let Outcome::Trace(t) = o {
            println!("got:      {}", pipe::trunc(&fmt_run(&t.a), 3000));
        } else {
            println!("got:      {:?}", o);
        }
    }
    match prop.judge(&ctx, &vars, &models, &outs) {
        Verdict::Bad(r) => {
            println!("VIOLATION property={} replay=<given file>", prop.id());
            println!("  {}", r);
            1
        }
        _ => {
            println!("replay: no violation");
            0
        }
    }
}
