//! Paths, subprocess helpers, evidence and known-findings files.

use serde_json::{json, Value};
use std::path::{Path, PathBuf};
use std::process::{Command, Stdio};
use std::time::Instant;

pub const VERIF: &str = "/verif";
pub const RD: &str = "/verif/rd";
pub const REPO: &str = "/repo";

pub fn verif(p: &str) -> PathBuf {
    Path::new(VERIF).join(p)
}

pub fn seed() -> u64 {
    std::env::var("VERIF_SEED")
        .ok()
        .and_then(|s| s.trim().parse::<i64>().ok())
        .map(|x| x as u64)
        .unwrap_or(0)
}

#[derive(Clone, Copy, PartialEq, Eq, Debug)]
pub enum Tier {
    Quick,
    Thorough,
}

impl Tier {
    pub fn name(self) -> &'static str {
        match self {
            Tier::Quick => "quick",
            Tier::Thorough => "thorough",
        }
    }
    pub fn pick<T>(self, q: T, t: T) -> T {
        match self {
            Tier::Quick => q,
            Tier::Thorough => t,
        }
    }
}

/// Infrastructure failure: exit code 2, never a violation.
pub fn infra(msg: &str) -> ! {
    eprintln!("INFRA-ERROR: {}", msg);
    println!("INFRA-ERROR: {}", msg);
    std::process::exit(2);
}

pub fn cargo_rd(args: &[&str]) -> Command {
    let mut c = Command::new("cargo");
    c.current_dir(RD)
        .args(args)
        .env("CARGO_NET_OFFLINE", "true")
        .env("CARGO_TERM_COLOR", "never");
    c
}

/// Builds a package of the /verif/rd workspace (which compiles against /repo's working tree).
pub fn build_rd(pkg: &str, release: bool) -> Result<(), String> {
    let mut args = vec!["build", "-p", pkg, "--quiet"];
    if release {
        args.push("--release");
    }
    let out = cargo_rd(&args)
        .stdout(Stdio::piped())
        .stderr(Stdio::piped())
        .output()
        .map_err(|e| format!("cannot run cargo: {}", e))?;
    if out.status.success() {
        Ok(())
    } else {
        Err(String::from_utf8_lossy(&out.stderr).to_string())
    }
}

pub fn rd_bin(name: &str, release: bool) -> PathBuf {
    Path::new(RD)
        .join("target")
        .join(if release { "release" } else { "debug" })
        .join(name)
}

pub struct Evidence {
    pub property: String,
    pub tier: Tier,
    pub level: &'static str,
    pub start: Instant,
    pub coverage: serde_json::Map<String, Value>,
    pub assumptions: Vec<String>,
    pub violations: i64,
}

impl Evidence {
    pub fn new(property: &str, tier: Tier) -> Evidence {
        Evidence {
            property: property.to_string(),
            tier,
            level: "exploration",
            start: Instant::now(),
            coverage: serde_json::Map::new(),
            assumptions: vec![],
            violations: 0,
        }
    }
    pub fn set(&mut self, k: &str, v: Value) {
        self.coverage.insert(k.to_string(), v);
    }
    pub fn write(&self) {
        let v = json!({
            "property_id": self.property,
            "tier": self.tier.name(),
            "seed": seed() as i64,
            "level": self.level,
            "coverage": Value::Object(self.coverage.clone()),
            "assumptions": self.assumptions,
            "wall_s": self.start.elapsed().as_secs_f64(),
            "violations": self.violations,
        });
        let dir = verif("evidence");
        let _ = std::fs::create_dir_all(&dir);
        let path = dir.join(format!("{}.json", self.property));
        std::fs::write(&path, serde_json::to_string_pretty(&v).unwrap() + "\n")
            .unwrap_or_else(|e| infra(&format!("cannot write evidence: {}", e)));
    }
}

/// Known findings: committed file, read-only at run time.
#[derive(Clone, Debug)]
pub struct Known {
    pub property: String,
    pub signature: String,
    pub what: String,
}

pub fn known_findings(property: &str) -> Vec<Known> {
    let path = verif("known_findings.json");
    let text = match std::fs::read_to_string(&path) {
        Ok(t) => t,
        Err(_) => return vec![],
    };
    let v: Value = serde_json::from_str(&text)
        .unwrap_or_else(|e| infra(&format!("known_findings.json is not valid JSON: {}", e)));
    let mut out = vec![];
    if let Some(arr) = v["known"].as_array() {
        for k in arr {
            if k["property"].as_str() == Some(property) {
                out.push(Known {
                    property: property.to_string(),
                    signature: k["signature"].as_str().unwrap_or("").to_string(),
                    what: k["what"].as_str().unwrap_or("").to_string(),
                });
            }
        }
    }
    out
}

pub fn write_replay(property: &str, body: &Value) -> PathBuf {
    let dir = verif("replays");
    let _ = std::fs::create_dir_all(&dir);
    let text = serde_json::to_string_pretty(body).unwrap();
    let mut h: u64 = 0xcbf29ce484222325;
    for b in text.bytes() {
        h ^= b as u64;
        h = h.wrapping_mul(0x100000001b3);
    }
    let path = dir.join(format!("{}-{:012x}.json", property, h & 0xffff_ffff_ffff));
    std::fs::write(&path, text + "\n").unwrap_or_else(|e| infra(&format!("cannot write replay: {}", e)));
    path
}

pub fn report_violation(property: &str, replay: &Path, summary: &str) {
    println!("VIOLATION property={} replay={}", property, replay.display());
    println!("  {}", summary);
}

pub fn fnv64(bytes: &[u8]) -> u64 {
    let mut h: u64 = 0xcbf29ce484222325;
    for b in bytes {
        h ^= *b as u64;
        h = h.wrapping_mul(0x100000001b3);
    }
    h
}

pub fn write_if_changed(path: &Path, content: &str) {
    if let Ok(old) = std::fs::read_to_string(path) {
        if old == content {
            return;
        }
    }
    if let Some(p) = path.parent() {
        let _ = std::fs::create_dir_all(p);
    }
    std::fs::write(path, content).unwrap_or_else(|e| infra(&format!("write {}: {}", path.display(), e)));
}
