//! Engine D: coverage-guided fuzzing stage (cargo-fuzz / libFuzzer) for the thorough tiers.
//! A batch of generated lexers is compiled into the `lex_inputs` target together with the
//! reference model; crashes are decoded back into ordinary Engine A cases.

use crate::util::*;
use oracle::spec::Spec;
use proto::Case;
use std::path::{Path, PathBuf};
use std::process::{Command, Stdio};

pub struct FuzzResult {
    pub ran: bool,
    pub note: String,
    pub runs: u64,
    pub secs: f64,
    /// (index into the given spec list, decoded case, libFuzzer's message)
    pub crashes: Vec<(usize, Case, String)>,
    pub corpus_files: usize,
}

fn copy_tree(from: &Path, to: &Path) {
    let _ = std::fs::create_dir_all(to);
    if let Ok(rd) = std::fs::read_dir(from) {
        for e in rd.flatten() {
            let p = e.path();
            let name = e.file_name();
            if name == "target" || name == "artifacts" || name == "corpus" || name == "coverage" {
                continue;
            }
            let dst = to.join(&name);
            if p.is_dir() {
                copy_tree(&p, &dst);
            } else if let Ok(c) = std::fs::read(&p) {
                let same = std::fs::read(&dst).map(|d| d == c).unwrap_or(false);
                if !same {
                    let _ = std::fs::write(&dst, c);
                }
            }
        }
    }
}

pub fn fuzz_dir(prop: &str) -> PathBuf {
    verif("work").join("fuzz").join(prop.to_lowercase())
}

/// `specs`: definitions that are known to expand and compile. `seeds`: initial corpus entries.
pub fn lex_inputs_stage(prop: &str, facet: &str, specs: &[&Spec], seeds: &[(usize, Case)], runs: u64, max_secs: u64) -> FuzzResult {
    let t0 = std::time::Instant::now();
    let dir = fuzz_dir(prop);
    copy_tree(&verif("fuzz"), &dir);
    // generated lexers
    let mut src = String::new();
    for (i, s) in specs.iter().enumerate() {
        src.push_str(&format!("pub mod m{} {{\n{}\n}}\n", i, s.print_module_body("Lexer")));
    }
    src.push_str("pub static LEXERS: &[(&str, rt::RunFn)] = &[\n");
    for (i, s) in specs.iter().enumerate() {
        let js = serde_json::to_string(s).unwrap();
        src.push_str(&format!("    (r########\"{}\"########, m{}::run),\n", js, i));
    }
    src.push_str("];\n");
    write_if_changed(&dir.join("generated").join("lexers.rs"), &src);
    let corpus = dir.join("corpus").join("lex_inputs");
    let artifacts = dir.join("artifacts");
    let _ = std::fs::remove_dir_all(&corpus);
    let _ = std::fs::remove_dir_all(&artifacts);
    let _ = std::fs::create_dir_all(&corpus);
    let _ = std::fs::create_dir_all(&artifacts);
    for (k, (idx, case)) in seeds.iter().enumerate() {
        let _ = std::fs::write(corpus.join(format!("seed{:04}", k)), oracle::fuzzfmt::encode(*idx, case));
    }
    let build = Command::new("cargo")
        .current_dir(&dir)
        .args(["+nightly", "fuzz", "build", "-s", "none", "--fuzz-dir", ".", "lex_inputs"])
        .env("CARGO_NET_OFFLINE", "true")
        .env("CARGO_TARGET_DIR", verif("work").join("fuzz").join("target"))
        .stdout(Stdio::piped())
        .stderr(Stdio::piped())
        .output();
    match build {
        Ok(o) if o.status.success() => {}
        Ok(o) => {
            return FuzzResult {
                ran: false,
                note: format!("fuzz build failed: {}", crate::pipe::trunc(&String::from_utf8_lossy(&o.stderr), 600)),
                runs: 0,
                secs: t0.elapsed().as_secs_f64(),
                crashes: vec![],
                corpus_files: 0,
            }
        }
        Err(e) => {
            return FuzzResult {
                ran: false,
                note: format!("cargo +nightly fuzz unavailable: {}", e),
                runs: 0,
                secs: t0.elapsed().as_secs_f64(),
                crashes: vec![],
                corpus_files: 0,
            }
        }
    }
    let out = Command::new("timeout")
        .current_dir(&dir)
        .arg(format!("{}", max_secs))
        .args(["cargo", "+nightly", "fuzz", "run", "-s", "none", "--fuzz-dir", ".", "lex_inputs"])
        .arg(&corpus)
        .arg("--")
        .arg(format!("-runs={}", runs))
        .arg(format!("-seed={}", (seed() % 0xffff_fffe) + 1))
        .args(["-len_control=0", "-max_len=120", "-timeout=25", "-print_final_stats=1"])
        .arg(format!("-artifact_prefix={}/", artifacts.display()))
        .env("CARGO_NET_OFFLINE", "true")
        .env("CARGO_TARGET_DIR", verif("work").join("fuzz").join("target"))
        .env("VERIF_FUZZ_FACET", facet)
        .stdout(Stdio::piped())
        .stderr(Stdio::piped())
        .output();
    let (status_ok, stderr) = match out {
        Ok(o) => (o.status.success(), String::from_utf8_lossy(&o.stderr).to_string()),
        Err(e) => (false, format!("{}", e)),
    };
    let executed = stderr
        .lines()
        .find(|l| l.starts_with("stat::number_of_executed_units:"))
        .and_then(|l| l.split(':').last())
        .and_then(|x| x.trim().parse::<u64>().ok())
        .unwrap_or(0);
    let mut crashes = vec![];
    if let Ok(rd) = std::fs::read_dir(&artifacts) {
        for e in rd.flatten() {
            let name = e.file_name().to_string_lossy().to_string();
            if name.starts_with("crash-") || name.starts_with("timeout-") || name.starts_with("oom-") {
                if let Ok(bytes) = std::fs::read(e.path()) {
                    if let Some((idx, case)) = oracle::fuzzfmt::decode(&bytes, specs.len()) {
                        let msg = stderr
                            .lines()
                            .find(|l| l.contains("VERIF-"))
                            .unwrap_or(if name.starts_with("timeout-") { "libFuzzer timeout (25 s for one input)" } else { "crash" })
                            .to_string();
                        crashes.push((idx, case, msg));
                    }
                }
            }
        }
    }
    let corpus_files = std::fs::read_dir(&corpus).map(|r| r.count()).unwrap_or(0);
    let note = if status_ok {
        "completed".to_string()
    } else if crashes.is_empty() {
        format!("libFuzzer ended abnormally without an artifact (time budget?): {}", crate::pipe::trunc(stderr.lines().last().unwrap_or(""), 200))
    } else {
        "crash artifact found".to_string()
    };
    FuzzResult {
        ran: true,
        note,
        runs: executed,
        secs: t0.elapsed().as_secs_f64(),
        crashes,
        corpus_files,
    }
}

/// Coverage-guided operation sequences on RangeMap (C11 thorough). Returns (note, executions,
/// crash message + artifact bytes).
pub fn rangemap_stage(runs: u64, max_secs: u64) -> (String, u64, Option<(String, Vec<u8>)>) {
    let dir = fuzz_dir("c11");
    copy_tree(&verif("fuzz"), &dir);
    let corpus = dir.join("corpus").join("rangemap_ops");
    let artifacts = dir.join("artifacts_rm");
    let _ = std::fs::remove_dir_all(&corpus);
    let _ = std::fs::remove_dir_all(&artifacts);
    let _ = std::fs::create_dir_all(&corpus);
    let _ = std::fs::create_dir_all(&artifacts);
    // a few valid seeds: insert, insert, remove
    let _ = std::fs::write(corpus.join("s0"), [0u8, 2, 9, 1, 0, 5, 14, 2, 1, 0, 3, 11]);
    let _ = std::fs::write(corpus.join("s1"), [0u8, 0, 23, 0, 2, 1, 4, 7, 9, 12, 1, 1, 1, 2, 20]);
    let out = Command::new("timeout")
        .current_dir(&dir)
        .arg(format!("{}", max_secs))
        .args(["cargo", "+nightly", "fuzz", "run", "-s", "none", "--fuzz-dir", ".", "rangemap_ops"])
        .arg(&corpus)
        .arg("--")
        .arg(format!("-runs={}", runs))
        .arg(format!("-seed={}", (seed() % 0xffff_fffe) + 1))
        .args(["-len_control=0", "-max_len=96", "-print_final_stats=1"])
        .arg(format!("-artifact_prefix={}/", artifacts.display()))
        .env("CARGO_NET_OFFLINE", "true")
        .env("CARGO_TARGET_DIR", verif("work").join("fuzz").join("target"))
        .stdout(Stdio::piped())
        .stderr(Stdio::piped())
        .output();
    let (ok, stderr) = match out {
        Ok(o) => (o.status.success(), String::from_utf8_lossy(&o.stderr).to_string()),
        Err(e) => return (format!("cargo +nightly fuzz unavailable: {}", e), 0, None),
    };
    let executed = stderr
        .lines()
        .find(|l| l.starts_with("stat::number_of_executed_units:"))
        .and_then(|l| l.split(':').last())
        .and_then(|x| x.trim().parse::<u64>().ok())
        .unwrap_or(0);
    let mut crash = None;
    if let Ok(rd) = std::fs::read_dir(&artifacts) {
        for e in rd.flatten() {
            if e.file_name().to_string_lossy().starts_with("crash-") {
                if let Ok(bytes) = std::fs::read(e.path()) {
                    let msg = stderr.lines().find(|l| l.contains("VERIF-C11")).unwrap_or("crash in RangeMap").to_string();
                    crash = Some((msg, bytes));
                }
            }
        }
    }
    let note = if ok {
        "completed".to_string()
    } else if crash.is_some() {
        "crash artifact found".to_string()
    } else if stderr.contains("error: could not compile") || stderr.contains("error[E") {
        format!("fuzz build failed: {}", crate::pipe::trunc(&stderr, 400))
    } else {
        "ended abnormally without an artifact (time budget?)".to_string()
    };
    (note, executed, crash)
}
