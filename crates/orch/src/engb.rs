//! Engine B properties: C12 (expansion terminates, deterministic, compiles), C16 (grammar and
//! scoping), C17 (ill-formed definitions are rejected). The macro pipeline runs in-process in a
//! worker (rd/pipeline) built from /repo's sources.

use crate::enga::{self, runner, sample, Facet, Prop, SpecCtx, Verdict};
use crate::genc;
use crate::pipe::{self, Expand, Worker};
use crate::props::{self, *};
use crate::server::Outcome;
use crate::util::*;
use oracle::cls::BUILTIN_NAMES;
use oracle::gen::{self, KindMix, Profile, ReParams};
use oracle::model::{Compiled, ModelOut};
use oracle::re::{alt, cat, diff, plus, print_re, sexp, star, Paren, Re, SetItem};
use oracle::spec::{Inner, Kind, ParenStyle, Rule, Spec, Top};
use proptest::prelude::*;
use proptest::test_runner::TestRunner;
use proto::Case;
use serde_json::{json, Value};
use std::collections::BTreeMap;
use std::time::Duration;

const EXPAND_BUDGET: Duration = Duration::from_secs(20);

fn has_ctx(spec: &Spec) -> bool {
    spec.rules().iter().any(|r| r.ctx.is_some())
}

fn re_has(re: &Re, f: &dyn Fn(&Re) -> bool) -> bool {
    if f(re) {
        return true;
    }
    match re {
        Re::Star(a) | Re::Plus(a) | Re::Opt(a) => re_has(a, f),
        Re::Cat(a, b) | Re::Alt(a, b) | Re::Diff(a, b) => re_has(a, f) || re_has(b, f),
        _ => false,
    }
}

fn spec_has(spec: &Spec, f: &dyn Fn(&Re) -> bool) -> bool {
    let flat_lets: Vec<&Re> = spec
        .items
        .iter()
        .flat_map(|t| match t {
            Top::Let(_, r) => vec![r],
            Top::RuleSet { items, .. } => items
                .iter()
                .filter_map(|i| match i {
                    Inner::Let(_, r) => Some(r),
                    _ => None,
                })
                .collect(),
            _ => vec![],
        })
        .collect();
    flat_lets.iter().any(|r| re_has(r, f))
        || spec
            .rules()
            .iter()
            .any(|r| re_has(&r.re, f) || r.ctx.as_ref().map(|c| re_has(c, f)).unwrap_or(false))
}

/// Known finding F8: a state reached through both a character arm and a range arm of its single
/// predecessor is inlined twice, so chains of such classes double the code at every element.
/// Generated definitions keep at most 6 "mixed" bracket sets (characters and ranges) per rule.
fn cap_mixed_sets(re: &mut Re, seen: &mut usize, excluded: &mut usize) {
    match re {
        Re::Set(items) => {
            let has_c = items.iter().any(|i| matches!(i, SetItem::C(_)));
            let has_r = items.iter().any(|i| matches!(i, SetItem::R(..)));
            if has_c && has_r {
                *seen += 1;
                if *seen > 6 {
                    *excluded += 1;
                    for i in items.iter_mut() {
                        if let SetItem::C(c) = *i {
                            *i = SetItem::R(c, c);
                        }
                    }
                }
            }
        }
        Re::Star(a) | Re::Plus(a) | Re::Opt(a) => cap_mixed_sets(a, seen, excluded),
        Re::Cat(a, b) | Re::Alt(a, b) | Re::Diff(a, b) => {
            cap_mixed_sets(a, seen, excluded);
            cap_mixed_sets(b, seen, excluded);
        }
        _ => {}
    }
}

fn cap_spec(spec: &mut Spec) -> usize {
    let mut excluded = 0;
    for r in spec.rules_mut() {
        let mut seen = 0;
        cap_mixed_sets(&mut r.re, &mut seen, &mut excluded);
        if let Some(c) = &mut r.ctx {
            cap_mixed_sets(c, &mut seen, &mut excluded);
        }
    }
    excluded
}

fn p_bigclass() -> Profile {
    let mut re = ReParams::basic(&ABCDE);
    re.builtins = BUILTIN_NAMES.to_vec();
    re.w_builtin = 6;
    re.w_diff = 3;
    re.w_set = 5;
    re.size = 8;
    Profile {
        name: "big-classes",
        re,
        sets: (1, 3),
        rules: (1, 4),
        ctx_pct: 40,
        eoi_pct: 5,
        kinds: KindMix::tokens_only(),
        unnamed_pct: 30,
        allow_empty_sets: false,
    }
}

/// Classes whose pieces are cut at the edges of the surrogate gap and of the scalar range.
fn p_gap() -> Profile {
    let mut re = ReParams::basic(&['a', '\'', '\0', '\u{d7ff}', '\u{e000}', '\u{10ffff}', 'z']);
    re.w_diff = 6;
    re.w_any = 5;
    re.w_set = 8;
    re.w_str = 1;
    re.size = 8;
    Profile {
        name: "gap-classes",
        re,
        sets: (1, 2),
        rules: (2, 4),
        ctx_pct: 20,
        eoi_pct: 0,
        kinds: KindMix::tokens_only(),
        unnamed_pct: 40,
        allow_empty_sets: false,
    }
}

fn p_manysets() -> Profile {
    let mut p = p_sets();
    p.name = "many-sets";
    p.sets = (1, 8);
    p
}

fn keyword(r: &mut TestRunner, len: (usize, usize)) -> String {
    let s = proptest::collection::vec(proptest::sample::select(vec!['a', 'b', 'c', 'd', 'e', 'f', 'g', '_', '0']), len.0..=len.1);
    sample(&s, r).into_iter().collect()
}

/// Scaling families: many rules, long strings, wide alternations.
fn scaling_specs(r: &mut TestRunner, n: usize) -> Vec<Spec> {
    let mut out = vec![];
    let count = any::<u8>();
    for i in 0..n {
        let mut rules = vec![];
        let mut lets: Vec<(String, Re)> = vec![];
        match i % 7 {
            6 => {
                // regex trees more than 256 levels deep: one flat alternation of 260-400 keywords
                // (directly or through a `let`) and one concatenation of as many characters
                let k = 260 + (sample(&count, r) as usize % 141);
                let mut seen = std::collections::BTreeSet::new();
                let mut a: Option<Re> = None;
                while seen.len() < k {
                    let w = keyword(r, (2, 6));
                    if seen.insert(w.clone()) {
                        a = Some(match a {
                            None => Re::Str(w),
                            Some(x) => alt(x, Re::Str(w)),
                        });
                    }
                }
                let a = a.unwrap();
                if i % 14 == 6 {
                    lets.push(("kw".to_string(), a));
                    rules.push((cat(Re::Var("kw".into()), Re::Char(';')), None));
                } else {
                    rules.push((cat(a, Re::Char(';')), None));
                }
                let letters: Vec<char> = ('a'..='z').collect();
                let mut c = Re::Char('#');
                for j in 0..k {
                    c = cat(c, Re::Char(letters[(j * 7 + i) % 26]));
                }
                rules.push((c, None));
                rules.push((plus(Re::Set(vec![SetItem::R('a', 'z')])), None));
            }
            5 => {
                // repetition nested 10-16 levels deep (directly, or through a chain of `let`s):
                // a construction that compiles the operand of `+` or `*` twice doubles per level
                let d = 10 + (sample(&count, r) as usize % 7);
                let via_lets = i % 12 == 5;
                let mut cur = Re::Char('a');
                for lvl in 0..d {
                    let body = cat(cur, Re::Char(if lvl % 2 == 0 { 'c' } else { 'd' }));
                    let rep = if sample(&count, r) % 4 == 0 { star(body) } else { plus(body) };
                    if via_lets {
                        let name = format!("l{}", lvl);
                        lets.push((name.clone(), rep));
                        cur = Re::Var(name);
                    } else {
                        cur = rep;
                    }
                }
                rules.push((cat(Re::Char('a'), cur), None));
                rules.push((plus(Re::Set(vec![SetItem::R('a', 'z')])), None));
                rules.push((Re::Char(' '), None));
            }
            0 => {
                // 10-40 keyword rules plus an identifier rule
                let k = 10 + (sample(&count, r) as usize % 31);
                for _ in 0..k {
                    rules.push((Re::Str(keyword(r, (2, 8))), None));
                }
                rules.push((
                    cat(
                        Re::Set(vec![SetItem::R('a', 'z'), SetItem::C('_')]),
                        star(Re::Set(vec![SetItem::R('a', 'z'), SetItem::R('0', '9'), SetItem::C('_')])),
                    ),
                    None,
                ));
                rules.push((plus(Re::Set(vec![SetItem::C(' '), SetItem::C('\n')])), None));
            }
            1 => {
                // strings of 20-60 characters
                let k = 3 + (sample(&count, r) as usize % 6);
                for _ in 0..k {
                    rules.push((Re::Str(keyword(r, (20, 60))), None));
                }
            }
            4 => {
                // fixed-length sequences over a multi-range class (hex digits) next to an
                // identifier rule: 8-40 states, each reached through several range arms
                let k = 8 + (sample(&count, r) as usize % 33);
                let hex = Re::Set(vec![SetItem::R('0', '9'), SetItem::R('a', 'f'), SetItem::R('A', 'F')]);
                let mut chain = hex.clone();
                for _ in 1..k {
                    chain = cat(chain, hex.clone());
                }
                rules.push((chain, None));
                rules.push((plus(Re::Set(vec![SetItem::R('a', 'z'), SetItem::R('A', 'Z'), SetItem::R('0', '9'), SetItem::C('_')])), None));
                rules.push((Re::Char(' '), None));
            }
            3 => {
                // a 10-30-way alternation of characters as an operand of `#`, directly and through
                // a variable
                // always some 30-way ones: a cost that doubles per alternative stays invisible
                // below ~26 alternatives
                let k = if i % 10 == 3 { 30 } else { 10 + (sample(&count, r) as usize % 21) };
                let letters: Vec<char> = ('a'..='z').chain('0'..='9').collect();
                let mut a = Re::Char(letters[0]);
                for j in 1..k {
                    a = alt(a, Re::Char(letters[j % letters.len()]));
                }
                rules.push((plus(diff(Re::Any, a.clone())), None));
                rules.push((cat(Re::Char('a'), diff(Re::Builtin("ascii".into()), a)), None));
            }
            _ => {
                // 10-30-way alternations
                let k = 10 + (sample(&count, r) as usize % 21);
                let mut a = Re::Str(keyword(r, (1, 5)));
                for _ in 1..k {
                    a = alt(a, Re::Str(keyword(r, (1, 5))));
                }
                rules.push((plus(a.clone()), None));
                rules.push((cat(Re::Char('#'), a), Some(Re::Builtin("ascii_whitespace".into()))));
            }
        }
        let mut sp = crate::props2::simple_spec(rules, i % 2 == 0, lets);
        if i % 7 == 6 {
            // flat chains, not nested parentheses
            sp.paren = oracle::spec::ParenStyle::Minimal;
        }
        out.push(sp);
    }
    out
}

fn nontrivial_def(spec: &Spec, n_lexers: usize) -> bool {
    let cyc = spec_has(spec, &|r| matches!(r, Re::Star(_) | Re::Plus(_)));
    let join = spec_has(spec, &|r| matches!(r, Re::Alt(..) | Re::Opt(_))) || spec.n_rules() > 1;
    let table = spec_has(spec, &|r| match r {
        Re::Builtin(n) => oracle::cls::builtin_cls(n).map(|c| c.0.len() > 9).unwrap_or(false),
        _ => false,
    });
    (cyc && join) || has_ctx(spec) || table || n_lexers >= 2
}

fn dummy_run() -> &'static str {
    "pub fn run(_c: &rt::Case) -> rt::Trace { rt::Trace::default() }\n"
}

/// Module text with several lexers declared side by side (generated item names must not clash).
fn multi_lexer_module(specs: &[Spec]) -> String {
    let mut o = String::new();
    for (i, s) in specs.iter().enumerate() {
        let name = if i == 0 { "Lexer".to_string() } else { format!("Lexer{}", i + 1) };
        o.push_str(&s.print_macro(&name));
    }
    o.push_str(dummy_run());
    o
}

pub fn run_c12(tier: Tier) -> i32 {
    let mut ev = Evidence::new("C12", tier);
    pipe::ensure_built();
    let n = tier.pick(220, 6000);
    let mut r = runner(seed(), "C12-specs");

    // --- definitions -------------------------------------------------------------------------
    let mut specs: Vec<(&'static str, Spec)> = vec![];
    let profs: Vec<Profile> = vec![
        p_rewind(),
        p_sets(),
        p_ctx(),
        p_eoi(),
        p_unicode(),
        p_actions(),
        p_bigclass(),
        p_manysets(),
        p_gap(),
    ];
    let tapes = gen::tape_strategy(40);
    let mut capped = 0usize;
    for p in &profs {
        let strat = gen::spec_strategy(p);
        for i in 0..n {
            let mut s = sample(&strat, &mut r);
            if i % 4 == 1 {
                gen::factor_lets(&mut s, &sample(&tapes, &mut r), 20);
            }
            if i % 5 == 2 {
                gen::duplicate_rules(&mut s, &sample(&tapes, &mut r));
            }
            if p.name == "gap-classes" && i % 3 == 0 {
                // "any scalar value" spelled as two ranges around the surrogate gap, next to a
                // class derived from `_`, both followed by more input
                let all = Re::Set(vec![SetItem::R('\0', '\u{d7ff}'), SetItem::R('\u{e000}', '\u{10ffff}')]);
                let extra = vec![
                    Rule { re: cat(diff(Re::Any, Re::Char('q')), Re::Char('a')), ctx: None, kind: Kind::Simple },
                    Rule { re: cat(if i % 2 == 0 { all } else { plus(all) }, Re::Char('b')), ctx: None, kind: Kind::Simple },
                ];
                let mut placed = false;
                for t in s.items.iter_mut() {
                    if let Top::RuleSet { items, .. } = t {
                        for e in &extra {
                            items.push(Inner::Rule(e.clone()));
                        }
                        placed = true;
                        break;
                    }
                }
                if !placed {
                    for e in extra {
                        s.items.push(Top::Rule(e));
                    }
                }
            }
            if i % 7 == 3 {
                // a bracket set of 10-23 individually listed characters, sometimes with an early
                // one listed again at the end, as an alternative of the first rule
                let many = gen::many_char_set(&sample(&tapes, &mut r), 10 + i % 6);
                if let Some(r0) = s.rules_mut().into_iter().next() {
                    r0.re = alt(r0.re.clone(), many);
                }
            }
            capped += cap_spec(&mut s);
            specs.push((p.name, s));
        }
    }
    for s in scaling_specs(&mut r, tier.pick(60, 600)) {
        specs.push(("scaling", s));
    }
    // right contexts whose automaton is exponentially larger than the regex: "the k-th character
    // after some `;`" (`_* ';' _ _ … _`, 2^k+ states for k = 9..11)
    for k in tier.pick(9usize..=10, 9usize..=11) {
        let mut c = cat(oracle::re::star(Re::Any), Re::Char(';'));
        for _ in 0..k {
            c = cat(c, Re::Any);
        }
        let rules = vec![(Re::Char('#'), Some(c)), (Re::Char('#'), None), (plus(Re::Set(vec![SetItem::R('a', 'z'), SetItem::C(';')])), None)];
        specs.push(("scaling", crate::props2::simple_spec(rules, k % 2 == 0, vec![])));
    }
    // several lexers in one module: 2-3 table-using lexers side by side
    let big = gen::spec_strategy(&p_bigclass());
    let mut multi: Vec<Vec<Spec>> = vec![];
    for i in 0..tier.pick(16, 300) {
        let k = 2 + i % 2;
        let mut group = vec![];
        for j in 0..k {
            let mut s = sample(&big, &mut r);
            // make sure every lexer of the group needs a search table
            if j < 2 {
                let extra = Rule {
                    re: plus(Re::Builtin(["alphabetic", "XID_Continue", "lowercase", "numeric"][(i + j) % 4].into())),
                    ctx: None,
                    kind: Kind::Simple,
                };
                let mut placed = false;
                for t in s.items.iter_mut() {
                    if let Top::RuleSet { items, .. } = t {
                        items.push(Inner::Rule(extra.clone()));
                        placed = true;
                        break;
                    }
                }
                if !placed {
                    s.items.push(Top::Rule(extra));
                }
            }
            // additional lexers must not use switch kinds (rule_of belongs to the first lexer)
            cap_spec(&mut s);
            group.push(s);
        }
        multi.push(group);
    }

    // --- Engine B: expansion within budget, no panic, deterministic --------------------------
    let mut defs: Vec<String> = specs.iter().map(|(_, s)| pipe::macro_body(&s.print_macro("Lexer"))).collect();
    let n_single = defs.len();
    for g in &multi {
        for (i, s) in g.iter().enumerate() {
            let name = if i == 0 { "Lexer".to_string() } else { format!("Lexer{}", i + 1) };
            defs.push(pipe::macro_body(&s.print_macro(&name)));
        }
    }
    let first = pipe::expand_all_opt(&defs, EXPAND_BUDGET, false, true, 12);
    // second pass in different processes, reversed order
    let rev: Vec<String> = defs.iter().rev().cloned().collect();
    let mut second = pipe::expand_all_opt(&rev, EXPAND_BUDGET, false, false, 12);
    second.reverse();
    // third pass: the same pipeline built WITHOUT debug assertions and overflow checks (the way a
    // release build of a user's crate builds the macro); the code must be the same
    pipe::ensure_plain_built();
    pipe::use_plain_build(true);
    let third = pipe::expand_all_opt(&defs, EXPAND_BUDGET, false, false, 12);
    pipe::use_plain_build(false);

    let mut violations: Vec<(String, String)> = vec![]; // (definition, reason)
    let mut slowest = 0.0f64;
    let mut nt = std::collections::HashSet::new();
    let mut samples = vec![];
    let mut confirmed_timeouts = 0;
    for (i, ((a, ta), (b, _))) in first.iter().zip(second.iter()).enumerate() {
        slowest = slowest.max(*ta);
        let def = &defs[i];
        if let (Expand::Ok { hash, .. }, Some((c, _))) = (a, third.get(i)) {
            match c {
                Expand::Ok { hash: h3, .. } if h3 == hash => {}
                Expand::Ok { .. } => violations.push((
                    def.clone(),
                    "the expansion differs between a macro built with and one built without debug assertions / overflow checks".to_string(),
                )),
                Expand::Timeout(_) => {}
                other => violations.push((
                    def.clone(),
                    format!("the macro built without debug assertions / overflow checks does not expand this definition: {}", other.short()),
                )),
            }
        }
        match a {
            Expand::Ok { hash, .. } => match b {
                Expand::Ok { hash: h2, .. } if h2 == hash => {}
                Expand::Ok { hash: h2, .. } => violations.push((
                    def.clone(),
                    format!("expansion is not deterministic: hash {} in one process, {} in another", hash, h2),
                )),
                other => violations.push((def.clone(), format!("second expansion failed: {}", other.short()))),
            },
            Expand::Timeout(_) if confirmed_timeouts >= 3 => {
                // three confirmed non-terminating definitions are reported; further budget
                // overruns of the same run are not re-measured alone (40 s each)
            }
            Expand::Timeout(_) => {
                // confirm alone with a doubled budget before calling it non-termination
                let mut w = Worker::new();
                match w.expand(def, false, EXPAND_BUDGET * 2) {
                    Expand::Ok { .. } => {}
                    other => {
                        confirmed_timeouts += 1;
                        violations.push((
                            def.clone(),
                            format!("macro expansion does not finish within {} s: {}", EXPAND_BUDGET.as_secs() * 2, other.short()),
                        ))
                    }
                }
            }
            other => violations.push((def.clone(), format!("well-formed definition does not expand: {}", other.short()))),
        }
        if i < n_single {
            if nontrivial_def(&specs[i].1, 1) && nt.insert(fnv64(def.as_bytes())) && samples.len() < 3 && i % 37 == 3 {
                samples.push(json!({"definition": def, "expansion": a.short()}));
            }
        } else if nt.insert(fnv64(def.as_bytes())) && samples.len() < 4 {
            samples.push(json!({"definition": def, "expansion": a.short(), "note": "one of several lexers in a module"}));
        }
    }

    // --- known finding F8: re-measure the growth of the mixed-class chain family --------------
    let mut w = Worker::new();
    let chain = |k: usize| -> String {
        let one = "['a' 'c'-'d']";
        format!("Lexer -> u32; {} = 0,", vec![one; k].join(" "))
    };
    let mut sizes = vec![];
    for k in [4usize, 6, 8] {
        if let Expand::Ok { len, .. } = w.expand(&chain(k), false, EXPAND_BUDGET) {
            sizes.push((k, len));
        }
    }
    let mut known_lines = vec![];
    if sizes.len() == 3 && sizes[2].1 as f64 > 3.0 * sizes[1].1 as f64 && sizes[1].1 as f64 > 3.0 * sizes[0].1 as f64 {
        let listed = known_findings("C12").iter().any(|k| k.signature == "family=mixed-class-chain");
        let msg = format!(
            "family=mixed-class-chain: generated code doubles with every `['a' 'c'-'d']` in a concatenation ({} / {} / {} bytes for 4 / 6 / 8 elements); 12 elements take about a minute, 16 more than 5 minutes",
            sizes[0].1, sizes[1].1, sizes[2].1
        );
        if listed {
            known_lines.push(format!("KNOWN-FINDING: property=C12 {}", msg));
        } else {
            violations.push((chain(8), msg));
        }
    }

    // --- Engine A: the output compiles -------------------------------------------------------
    let mut modules: BTreeMap<usize, String> = BTreeMap::new();
    let n_compile = tier.pick(160, 3000);
    let step = (n_single / n_compile.max(1)).max(1);
    for i in 0..n_single {
        // a stride sample of the profiles, and every definition of the scaling families (long
        // literals, many rules, wide alternations: their state machines have shapes — long chains
        // of inlined states, hundreds of arms — that small definitions never produce)
        let take = i % step == 0 || specs[i].0 == "scaling";
        let small_enough = matches!(first[i].0, Expand::Ok { len, .. } if len <= 6_000_000);
        if take && small_enough {
            let mut body = specs[i].1.print_macro("Lexer");
            // the glue is not needed to decide "compiles"; switch kinds need rule_of
            body = specs[i].1.print_module_body("Lexer");
            let _ = &mut body;
            modules.insert(i, body);
        }
    }
    let mut off = n_single;
    let mut multi_ok = vec![];
    for (gi, g) in multi.iter().enumerate() {
        let all_ok = (0..g.len()).all(|j| first[off + j].0.is_ok());
        off += g.len();
        if all_ok {
            // switch kinds in lexers 2.. would need their own rule_of: tokens_only profile has none
            modules.insert(1_000_000 + gi, multi_lexer_module(g));
            multi_ok.push(gi);
        }
    }
    // header variants: user state / token / error types with lifetimes, visibility, attributes
    let headers: Vec<(&str, &str)> = vec![
        ("Lexer -> u32;", ""),
        ("Lexer(u32) -> u32;", ""),
        ("pub(crate) Lexer(usize) -> (u32, u32);", ""),
        ("/// doc comment\n#[derive(Debug, Clone)]\npub Lexer(Vec<u32>) -> u32;", ""),
        ("Lexer(&'input str) -> &'input str;", "&'input str"),
        ("Lexer(Option<&'a str>) -> u32;", ""),
        ("Lexer(Pair<'a, 'b>) -> u32;", ""),
        ("Lexer(Pair<'a, 'a>) -> u32;", ""),
        ("Lexer(Pair<'a, 'input>) -> u32;", ""),
        ("Lexer(Pair<'static, 'a>) -> u32;", ""),
        ("Lexer(Pair<'input, 'input>) -> Tok<'input>;", "tok"),
        ("Lexer -> Tok<'input>;", "tok"),
        ("Lexer(u8) -> u32; type Error = Pair<'input, 'input>;", ""),
        ("pub Lexer(std::collections::HashMap<u32, Vec<&'a str>>) -> u32;", ""),
        // a lifetime repeated with another one in between
        ("Lexer(Triple<'a, 'b, 'a>) -> u32;", ""),
        ("Lexer((&'x str, &'y str, &'x str)) -> u32;", ""),
        // lifetimes inside function-pointer types, trait objects and associated-type bindings
        ("Lexer(fn(&'input str) -> bool) -> u32;", ""),
        ("Lexer(Box<dyn FnMut(&'input str) + 'input>) -> u32;", ""),
        ("Lexer(Box<dyn FnMut(&str) + 'a>) -> u32;", ""),
        ("Lexer(Box<dyn Iterator<Item = &'a str> + 'a>) -> u32;", ""),
        // the error type mentions a lifetime of the user state type
        ("Lexer(Pair<'m, 'm>) -> u32; type Error = Tok<'m>;", ""),
        ("Lexer(Pair<'m, 'input>) -> u32; type Error = Pair<'input, 'm>;", ""),
    ];
    let bodies = [
        "rule Init { 'a' = V, 'b'+ => |lexer| { let _ = lexer.state(); lexer.return_(V) }, ' ', } rule Other { $$alphabetic+ = V, }",
        "let x = ['a'-'z']; $x+ 'q' = V, $x > '!' = V, _ => |lexer| lexer.continue_(),",
    ];
    for (hi, (h, tokkind)) in headers.iter().enumerate() {
        for (bi, b) in bodies.iter().enumerate() {
            let v = match *tokkind {
                "tok" => "Tok(\"x\")",
                "&'input str" => "\"x\"",
                _ if h.contains("(u32, u32)") => "(1, 2)",
                _ => "7",
            };
            let text = format!(
                "#[allow(dead_code)]\npub struct Pair<'x, 'y>(pub &'x str, pub &'y str);\n#[allow(dead_code)]\npub struct Triple<'x, 'y, 'z>(pub &'x str, pub &'y str, pub &'z str);\n#[allow(dead_code)]\npub struct Tok<'t>(pub &'t str);\nlexgen::lexer! {{\n{}\n{}\n}}\n{}",
                h,
                b.replace("V", v),
                dummy_run()
            );
            modules.insert(2_000_000 + hi * 10 + bi, text);
        }
        // tokens that borrow from the input through match_()
        if *tokkind == "tok" || *tokkind == "&'input str" {
            let mk = if *tokkind == "tok" { "Tok(m)" } else { "m" };
            let text = format!(
                "#[allow(dead_code)]\npub struct Pair<'x, 'y>(pub &'x str, pub &'y str);\n#[allow(dead_code)]\npub struct Tok<'t>(pub &'t str);\nlexgen::lexer! {{\n{}\nrule Init {{ ['a'-'z']+ => |lexer| {{ let m = lexer.match_(); lexer.return_({}) }}, ' ' => |lexer| {{ lexer.reset_match(); lexer.continue_() }}, '[' => |lexer| lexer.switch(LexerRule::In), }} rule In {{ ']' => |lexer| {{ let m = lexer.match_(); lexer.switch_and_return(LexerRule::Init, {}) }}, _ => |lexer| lexer.continue_(), }}\n}}\n{}",
                h, mk, mk,
                dummy_run()
            );
            modules.insert(2_000_000 + hi * 10 + 5, text);
        }
    }
    // the state type arrives as a `$st:ty` fragment of a macro_rules! wrapper (a grouped type)
    for (wi, st) in ["&'a str", "Option<&'input str>", "(u8, &'static str)"].iter().enumerate() {
        let text = format!(
            "macro_rules! mk_lexer {{ ($st:ty) => {{ lexgen::lexer! {{ Lexer($st) -> u32; rule Init {{ 'a' = 7, ['b'-'z']+ = 8, ' ', }} }} }} }}\nmk_lexer!({});\n{}",
            st,
            dummy_run()
        );
        modules.insert(2_500_000 + wi, text);
    }
    let n_modules = modules.len();
    let build = genc::build_modules(&format!("c12_{}_{}", tier.name(), seed()), modules.clone(), 16);
    for (i, e) in &build.failed {
        let def = if *i >= 2_000_000 {
            modules.get(i).cloned().unwrap_or_default()
        } else if *i >= 1_000_000 {
            multi_lexer_module(&multi[*i - 1_000_000])
        } else {
            specs[*i].1.print_macro("Lexer")
        };
        violations.push((def, format!("expansion output does not compile: {}", pipe::trunc(e, 500))));
    }

    // --- report -----------------------------------------------------------------------------
    let mut printed = 0;
    for (def, reason) in violations.iter().take(5) {
        let body = json!({"property": "C12", "engine": "B", "seed": seed() as i64, "reason": reason, "definition": def});
        let path = write_replay("C12", &body);
        report_violation("C12", &path, &pipe::trunc(reason, 400));
        printed += 1;
    }
    for l in &known_lines {
        println!("{}", l);
    }
    ev.set("evaluations", json!(defs.len() * 3));
    ev.set("definitions_expanded", json!(defs.len()));
    ev.set("distinct_nontrivial", json!(nt.len()));
    ev.set("programs", json!(n_modules));
    ev.set("modules_with_several_lexers", json!(multi_ok.len()));
    ev.set("slowest_expansion_s", json!(slowest));
    ev.set("mixed_sets_capped", json!(capped));
    ev.set("mixed_class_chain_code_sizes", json!(sizes));
    ev.set("build_secs", json!(build.build_secs));
    ev.set("samples", json!(samples));
    ev.set("rule", json!("definitions of every profile (rewinding, 1-8 rule sets, right contexts of every shape, `$`, Unicode, all action kinds, large built-in classes in rules and contexts, bracket sets repeating a character, `let` variables, duplicated rules) plus scaling families (10-40 keyword rules, strings of 20-60 characters, 10-30-way alternations) and modules declaring 2-3 table-using lexers side by side. Each definition is expanded three times by the repository's macro pipeline in-process: twice in one process and once in another; every expansion must finish within 20 s (a timeout is confirmed alone with 40 s), must not panic, and all three must give the same token string. A sample of the definitions and every multi-lexer module is compiled by rustc (errors attributed per module). Non-trivial = the definition has a cycle and a join, or a right context, or a table-sized class, or shares its module with another lexer; distinct by definition text. At most 6 bracket sets mixing characters and ranges per rule (known finding F8, re-measured every run)."));
    ev.set("exhaustive", json!(false));
    ev.assumptions = vec![
        "the in-process harness compiles /repo/crates/lexgen/src unchanged except three entry-point lines of lib.rs (proc_macro -> proc_macro2)".into(),
        "non-termination is observed as a 20 s / 40 s budget overrun (normal expansions take milliseconds)".into(),
    ];
    ev.violations = violations.len() as i64;
    ev.write();
    eprintln!(
        "[C12] {} definitions expanded 3x (slowest {:.2}s), {} modules compiled, {} violations",
        defs.len(),
        slowest,
        n_modules,
        violations.len()
    );
    if printed > 0 {
        1
    } else {
        0
    }
}

// ---------------------------------------------------------------------------------------------
// C16

/// Trees for the grammar round trip: every operator, variables, built-ins, `#` between atoms.
fn c16_tree() -> BoxedStrategy<Re> {
    let mut p = ReParams::basic(&['a', 'b', 'c', '\'', '\\', 'é']);
    p.w_diff = 3;
    p.w_builtin = 2;
    p.w_any = 2;
    p.depth = 6;
    p.size = 20;
    let base = gen::re_strategy(&p);
    let var = proptest::sample::select(vec!["x", "y", "zz"]).prop_map(|n| Re::Var(n.to_string()));
    // add variables and `#` with arbitrary atoms (the parser does not care about class-ness)
    (base, proptest::collection::vec((var, any::<u8>()), 0..3))
        .prop_map(|(mut re, vars)| {
            for (v, pos) in vars {
                let mut k = pos as usize % (re.size().max(1));
                replace_leaf(&mut re, &mut k, v);
            }
            re
        })
        .boxed()
}

/// Appends `$` at a tail position chosen by the bits: at this node, or inside the right operand of
/// a top-level `|` / concatenation (`a | b $`, `a (b | c $)`).
fn eoi_at_tail(re: Re, bits: u64) -> Re {
    match re {
        Re::Alt(a, b) if bits & 1 == 1 => alt(*a, eoi_at_tail(*b, bits >> 1)),
        Re::Cat(a, b) if bits & 1 == 1 && !matches!(*b, Re::Diff(..)) => cat(*a, eoi_at_tail(*b, bits >> 1)),
        other => cat(other, Re::Eoi),
    }
}

fn replace_leaf(re: &mut Re, k: &mut usize, with: Re) -> bool {
    match re {
        Re::Star(a) | Re::Plus(a) | Re::Opt(a) => replace_leaf(a, k, with),
        Re::Cat(a, b) | Re::Alt(a, b) => {
            if replace_leaf(a, k, with.clone()) {
                true
            } else {
                replace_leaf(b, k, with)
            }
        }
        Re::Diff(..) => false,
        Re::Eoi => false,
        _ => {
            if *k == 0 {
                *re = with;
                true
            } else {
                *k -= 1;
                false
            }
        }
    }
}

fn needs_paren_minimal(re: &Re) -> bool {
    let min = print_re(re, Paren::Minimal);
    min.contains('(')
}

fn expected_items(spec: &Spec) -> Vec<String> {
    let rule_s = |r: &Rule| match &r.ctx {
        None => format!("(rule {})", sexp(&r.re)),
        Some(c) => format!("(rule {} > {})", sexp(&r.re), sexp(c)),
    };
    spec.items
        .iter()
        .map(|t| match t {
            Top::Let(n, re) => format!("(let {} {})", n, sexp(re)),
            Top::ErrorType => "(errtype)".to_string(),
            Top::Rule(r) => rule_s(r),
            Top::RuleSet { name, items } => format!(
                "(ruleset {}{})",
                name,
                items
                    .iter()
                    .map(|i| match i {
                        Inner::Let(n, re) => format!(" (let {} {})", n, sexp(re)),
                        Inner::Rule(r) => format!(" {}", rule_s(r)),
                    })
                    .collect::<String>()
            ),
        })
        .collect()
}

/// End-to-end part of C16: definitions printed with minimal / redundant parentheses and with
/// subtrees factored into `let`s, compared behaviourally with the reference.
pub struct C16e;

impl Prop for C16e {
    fn id(&self) -> &'static str {
        "C16"
    }
    fn profiles(&self, tier: Tier) -> Vec<(Profile, usize)> {
        let mut a = p_rewind();
        a.name = "paren-styles";
        a.re.w_diff = 2;
        a.re.w_builtin = 2;
        a.re.builtins = vec!["ascii_lowercase", "ascii_digit", "whitespace", "ascii_hexdigit"];
        a.re.size = 12;
        let mut b = p_sets();
        b.name = "paren-styles-sets";
        b.kinds = KindMix::tokens_only();
        b.allow_empty_sets = false;
        b.rules = (1, 3);
        b.ctx_pct = 30;
        b.re.w_builtin = 2;
        b.re.builtins = vec!["ascii_lowercase", "ascii_digit", "ascii_punctuation"];
        vec![(a, tier.pick(150, 1500)), (b, tier.pick(150, 1500))]
    }
    fn adjust_spec(&self, mut spec: Spec, r: &mut TestRunner) -> Spec {
        let bits = sample(&any::<u64>(), r);
        spec.paren = match bits % 3 {
            0 => ParenStyle::Minimal,
            _ => ParenStyle::Redundant(bits >> 2),
        };
        let tape = sample(&gen::tape_strategy(60), r);
        gen::factor_lets(&mut spec, &tape, 30);
        // the same variable several times in one rule set, with different text around it
        let tape2 = sample(&gen::tape_strategy(40), r);
        gen::reuse_vars(&mut spec, &tape2, 15);
        gen::repair_nullable(&mut spec, 'a');
        spec
    }
    fn cases(&self, ctx: &SpecCtx, _c: &mut Compiled, r: &mut TestRunner, tier: Tier) -> Vec<Case> {
        cases_from(
            ctx,
            r,
            &Plan {
                exhaustive_cap: tier.pick(1500, 6000),
                guided: tier.pick(200, 800),
                wild: 20,
                scripts: false,
                script_len: 0,
                scripts_per_input: 1,
            },
        )
    }
    fn judge(&self, ctx: &SpecCtx, _v: &[Case], models: &[ModelOut], gots: &[Outcome]) -> Verdict {
        let t = match enga::basic_health(&gots[0]) {
            Ok(t) => t,
            Err(e) => return Verdict::Bad(e),
        };
        match enga::compare_runs(&models[0].trace.a, &t.a, &Facet::TOKENS) {
            Err(e) => Verdict::Bad(e),
            Ok(()) => {
                let has_let = ctx.spec.items.iter().any(|t| match t {
                    Top::Let(..) => true,
                    Top::RuleSet { items, .. } => items.iter().any(|i| matches!(i, Inner::Let(..))),
                    _ => false,
                });
                let needs = ctx.spec.rules().iter().any(|r| needs_paren_minimal(&r.re) && r.re.depth() >= 3);
                Verdict::Ok {
                    nontrivial: (has_let || needs) && models[0].facts.items > 0,
                }
            }
        }
    }
    fn unusable_is_violation(&self, _spec: &Spec) -> bool {
        true
    }
    fn rule(&self) -> String {
        String::new()
    }
    fn min_nontrivial(&self, _tier: Tier) -> usize {
        100
    }
}

pub fn run_c16(tier: Tier) -> i32 {
    pipe::ensure_built();
    let mut r = runner(seed(), "C16-trees");
    let n_trees = tier.pick(30_000, 400_000);
    let tree = c16_tree();
    let bits = any::<u64>();
    let tapes = gen::tape_strategy(40);
    let mut violations: Vec<Value> = vec![];
    let mut nt = std::collections::HashSet::new();
    let mut samples: Vec<Value> = vec![];

    // Part 1: parse round trip. Definitions are built in batches and parsed by a pool of workers.
    struct Job {
        def: String,
        expected: Vec<String>,
        nontrivial: bool,
    }
    let mut jobs: Vec<Job> = Vec::with_capacity(n_trees);
    for i in 0..n_trees {
        let style = match i % 3 {
            0 => ParenStyle::Minimal,
            1 => ParenStyle::Redundant(sample(&bits, &mut r)),
            _ => ParenStyle::Full,
        };
        // 1-3 rules, optional contexts, optional rule sets; then factor lets
        let n_rules = 1 + i % 3;
        let mut rules = vec![];
        for j in 0..n_rules {
            let mut re = sample(&tree, &mut r);
            if (i + j) % 5 == 0 {
                re = cat(re, Re::Eoi);
            } else if (i + j) % 5 == 1 {
                // `$` at the tail of the LAST alternative / concatenation (descending the right spine)
                re = eoi_at_tail(re, sample(&bits, &mut r));
            }
            let ctx = if (i + j) % 4 == 0 { Some(sample(&tree, &mut r)) } else { None };
            rules.push((re, ctx));
        }
        let mut spec = crate::props2::simple_spec(rules, i % 2 == 0, vec![]);
        spec.paren = style;
        if i % 2 == 1 {
            gen::factor_lets(&mut spec, &sample(&tapes, &mut r), 25);
        }
        let expected = expected_items(&spec);
        let def = pipe::macro_body(&spec.print_macro("Lexer"));
        let deep = spec.rules().iter().any(|r| needs_paren_minimal(&r.re) && r.re.depth() >= 3);
        let has_let = spec.items.iter().any(|t| matches!(t, Top::Let(..)))
            || spec.items.iter().any(|t| matches!(t, Top::RuleSet { items, .. } if items.iter().any(|i| matches!(i, Inner::Let(..)))));
        jobs.push(Job {
            def,
            expected,
            nontrivial: deep || has_let,
        });
    }
    let next = std::sync::atomic::AtomicUsize::new(0);
    let found: std::sync::Mutex<Vec<(usize, String)>> = std::sync::Mutex::new(vec![]);
    std::thread::scope(|s| {
        for _ in 0..12 {
            s.spawn(|| {
                let mut w = Worker::new();
                loop {
                    let i = next.fetch_add(1, std::sync::atomic::Ordering::SeqCst);
                    if i >= jobs.len() {
                        break;
                    }
                    let j = &jobs[i];
                    match w.parse(&j.def, Duration::from_secs(20)) {
                        Ok(items) => {
                            if items != j.expected {
                                let k = items.iter().zip(j.expected.iter()).position(|(a, b)| a != b).unwrap_or(0);
                                found.lock().unwrap().push((
                                    i,
                                    format!(
                                        "definition is not read as the tree it was printed from: item {} parsed as {} but the printed tree is {}",
                                        k,
                                        items.get(k).cloned().unwrap_or_default(),
                                        j.expected.get(k).cloned().unwrap_or_default()
                                    ),
                                ));
                            }
                        }
                        Err(e) => found.lock().unwrap().push((i, format!("well-formed definition does not parse: {}", e.short()))),
                    }
                }
            });
        }
    });
    let mut found = found.into_inner().unwrap();
    found.sort();
    for (i, reason) in found.iter().take(3) {
        violations.push(json!({"part": "parse", "definition": jobs[*i].def, "reason": reason}));
    }
    for (i, j) in jobs.iter().enumerate() {
        if j.nontrivial {
            nt.insert(fnv64(j.def.as_bytes()));
            if samples.len() < 3 && i % 1009 == 7 {
                samples.push(json!({"definition": j.def, "parsed_items": j.expected}));
            }
        }
    }
    let n_parse = jobs.len();
    drop(jobs);

    // Part 2: scoping. (reject) a rule-set-local `let` used in another rule set; a top-level
    // `let` used before its definition. (accept) a top-level `let` used in every later rule set;
    // the same local name bound differently in two rule sets.
    let mut w = Worker::new();
    let small = {
        let mut p = ReParams::basic(&ABC);
        p.size = 5;
        p.depth = 3;
        gen::re_strategy(&p)
    };
    let n_scope = tier.pick(400, 4000);
    let mut scope_cases = 0;
    for i in 0..n_scope {
        let x = gen::fix_nullable(sample(&small, &mut r), 'a');
        let y = gen::fix_nullable(sample(&small, &mut r), 'b');
        let px = print_re(&x, Paren::Full);
        let py = print_re(&y, Paren::Full);
        let (def, must_reject, what) = match i % 7 {
            5 => (
                format!("Lexer -> u32; rule Init {{ {} = 0, }} let v = {}; rule A {{ $v = 1, }} rule B {{ ($v)+ {} = 2, }}", px, py, px),
                false,
                "a top-level `let` placed between two rule sets is used in the later rule sets",
            ),
            6 => (
                format!("Lexer -> u32; let u = {}; rule Init {{ $u = 0, }} let v = $u {}; rule A {{ $v = 1, }} let w = $v | $u; rule B {{ $w $v = 2, }}", px, py),
                false,
                "top-level `let`s between rule sets use earlier ones and are used in later rule sets",
            ),
            0 => (
                format!("Lexer -> u32; rule Init {{ let v = {}; $v = 0, }} rule A {{ $v {} = 1, }}", px, py),
                true,
                "a `let` inside rule set Init is used in rule set A",
            ),
            1 => (
                format!("Lexer -> u32; rule Init {{ $v = 0, }} let v = {}; rule A {{ {} = 1, }}", px, py),
                true,
                "a top-level `let` is used before its definition",
            ),
            2 => (
                format!("Lexer -> u32; let v = {}; rule Init {{ $v = 0, }} rule A {{ $v {} = 1, }} rule B {{ ($v)+ = 2, }}", px, py),
                false,
                "a top-level `let` is used in every later rule set",
            ),
            3 => (
                format!("Lexer -> u32; rule Init {{ let v = {}; $v = 0, }} rule A {{ let v = {}; $v = 1, }}", px, py),
                false,
                "the same local name is bound in two rule sets",
            ),
            _ => (
                format!("Lexer -> u32; rule Init {{ {} = 0, }} rule A {{ let v = {}; }} rule B {{ $v = 1, }}", px, py),
                true,
                "a `let` inside rule set A is used in the later rule set B",
            ),
        };
        scope_cases += 1;
        let res = w.expand(&def, false, EXPAND_BUDGET);
        let bad = if must_reject { res.is_ok() } else { !res.is_ok() };
        if bad && violations.len() < 5 {
            violations.push(json!({"part": "scoping", "definition": def, "reason": format!("{}: expected {} but expansion gave: {}", what, if must_reject { "rejection" } else { "a lexer" }, res.short())}));
        }
        nt.insert(fnv64(def.as_bytes()));
    }

    // Part 3: end to end through rustc with minimal / redundant parentheses and lets
    let mut printed = 0;
    for v in violations.iter() {
        let mut body = v.clone();
        body["property"] = json!("C16");
        body["engine"] = json!("B");
        body["seed"] = json!(seed() as i64);
        let path = write_replay("C16", &body);
        report_violation("C16", &path, &pipe::trunc(v["reason"].as_str().unwrap_or(""), 400));
        printed += 1;
    }
    let (mut ev, code_e) = enga::run_collect(&C16e, tier);
    let ev_e = ev.coverage.get("evaluations").and_then(|x| x.as_u64()).unwrap_or(0);
    let nt_e = ev.coverage.get("distinct_nontrivial").and_then(|x| x.as_u64()).unwrap_or(0);
    if let Some(b) = ev.coverage.get("samples").and_then(|x| x.as_array()) {
        samples.extend(b.iter().take(2).cloned());
    }
    ev.set("evaluations", json!(ev_e + n_parse as u64 + scope_cases as u64));
    ev.set("distinct_nontrivial", json!(nt_e + nt.len() as u64));
    ev.set("parse_round_trips", json!(n_parse));
    ev.set("scoping_definitions", json!(scope_cases));
    ev.set("end_to_end", json!({"evaluations": ev_e, "distinct_nontrivial": nt_e}));
    ev.set("samples", json!(samples));
    ev.set("rule", json!("part 1 (grammar): random regex trees over all operators (characters incl. quote/backslash/non-ASCII, strings, sets, `_`, built-ins, `#`, `$` in tail position, variables), 1-3 rules with optional right contexts, with and without `rule Init {}`, printed with the FEWEST parentheses the documented grammar allows (# tighter than postfix, then concatenation, then |, all left-associative), with random redundant parentheses, or fully parenthesised, and with random subtrees factored into top-level, nested and rule-set-local `let`s; the repository's parser (in-process) must return exactly the printed item list and trees. part 2 (scoping): generated definitions that must be rejected (local `let` used in another rule set, top-level `let` used before its definition) or accepted (top-level `let` visible in all later rule sets; the same local name bound differently in two rule sets). part 3 (end to end): definitions printed with minimal / redundant parentheses and lets, compiled by rustc and compared behaviourally with the reference on all short strings + sampled inputs. Non-trivial = the tree needs at least one parenthesis under minimal printing and has depth >= 3, or the definition uses a `let`. `'a' # 'b'*` is read as `('a' # 'b')*`, as the property statement orders the operators (the README's bullet list puts postfix first: a documentation inconsistency, not checked)."));
    ev.set("exhaustive", json!(false));
    ev.violations += violations.len() as i64;
    ev.write();
    eprintln!("[C16] {} parse round trips, {} scoping definitions, {} violations (parts 1-2)", n_parse, scope_cases, violations.len());
    if printed > 0 || code_e == 1 {
        1
    } else {
        code_e
    }
}

// ---------------------------------------------------------------------------------------------
// C17

#[derive(Clone, Debug)]
struct Mutant {
    kind: &'static str,
    def: String,
    /// Known finding F11: the violation sits in a `let` that no rule references.
    in_unreferenced_let: bool,
    /// position index (0 = first item) for the non-triviality rule
    late: bool,
}

fn base_for_c17(r: &mut TestRunner, i: usize) -> Spec {
    let profs = [p_actions(), p_sets(), p_ctx(), p_eoi()];
    let p = &profs[i % 4];
    let mut s = sample(&gen::spec_strategy(p), r);
    let tape = sample(&gen::tape_strategy(40), r);
    gen::factor_lets(&mut s, &tape, 25);
    s
}

fn nth_rule_mut(spec: &mut Spec, k: usize) -> Option<&mut Rule> {
    let mut rs = spec.rules_mut();
    if rs.is_empty() {
        return None;
    }
    let n = rs.len();
    Some(rs.swap_remove(k % n))
}

fn bad_diff_operand(which: usize) -> (Re, &'static str) {
    match which % 8 {
        5 => (diff(Re::Any, alt(Re::Str("x".into()), Re::Str("y".into()))), "one-character strings under | as operand of #"),
        6 => (diff(Re::Any, alt(Re::Char('x'), Re::Str("y".into()))), "a one-character string under | as operand of #"),
        7 => (diff(alt(Re::Str("q".into()), Re::Set(vec![SetItem::R('a', 'c')])), Re::Char('a')), "a one-character string in the left operand of #"),
        0 => (diff(Re::Str("ab".into()), Re::Char('a')), "string operand of #"),
        1 => (diff(Re::Any, star(Re::Char('a'))), "repetition operand of #"),
        2 => (diff(cat(Re::Char('a'), Re::Char('b')), Re::Char('a')), "concatenation operand of #"),
        3 => (diff(Re::Any, Re::Eoi), "`$` operand of #"),
        _ => (diff(Re::Any, plus(Re::Char('a'))), "`+` operand of #"),
    }
}

fn mutants(r: &mut TestRunner, i: usize) -> Vec<Mutant> {
    let mut out = vec![];
    let base = base_for_c17(r, i);
    let pos = sample(&any::<u16>(), r) as usize;
    let n_rules = base.n_rules().max(1);
    let late = |k: usize| (k % n_rules) >= 1 && base.items.len() >= 2;
    let pr = |s: &Spec| pipe::macro_body(&s.print_macro("Lexer"));
    let push = |out: &mut Vec<Mutant>, kind: &'static str, def: String, unref: bool, late: bool| {
        out.push(Mutant {
            kind,
            def,
            in_unreferenced_let: unref,
            late,
        })
    };
    match i % 19 {
        18 => {
            // the header line `<vis> Lexer(<state type>) -> <token type>;` with one defect
            let d = pr(&base);
            let good = "Lexer(rt::St) -> u32;";
            let variants = [
                "Lexer(rt::St, u32) -> u32;",
                "Lexer() -> u32;",
                "Lexer(rt::St,) -> u32;",
                "Lexer(rt::St) u32;",
                "Lexer(rt::St) -> ;",
                "(rt::St) -> u32;",
                "Lexer(rt::St) => u32;",
                "Lexer(rt::St) -> u32",
                "Lexer(rt::St)(u32) -> u32;",
                "Lexer[rt::St] -> u32;",
            ];
            if d.contains(good) {
                push(&mut out, "syntax-header", d.replacen(good, variants[pos % variants.len()], 1), false, false);
            }
        }
        0 => {
            // unbound variable inside a rule
            let mut s = base.clone();
            if let Some(rule) = nth_rule_mut(&mut s, pos) {
                rule.re = cat(Re::Var("undefined_var".into()), rule.re.clone());
            }
            push(&mut out, "unbound-var", pr(&s), false, late(pos));
            // … and inside a let nobody references (known finding F11)
            let mut s = base.clone();
            s.items.insert(0, Top::Let("unused9".into(), cat(Re::Char('a'), Re::Var("undefined_var".into()))));
            push(&mut out, "unbound-var", pr(&s), true, false);
            // … and a variable that is bound, but only inside ANOTHER rule set
            let mut s = base.clone();
            let set_idx: Vec<usize> = s.items.iter().enumerate().filter(|(_, t)| matches!(t, Top::RuleSet { items, .. } if items.iter().any(|i| matches!(i, Inner::Rule(_))))).map(|(k, _)| k).collect();
            let all_sets: Vec<usize> = s.items.iter().enumerate().filter(|(_, t)| matches!(t, Top::RuleSet { .. })).map(|(k, _)| k).collect();
            if all_sets.len() >= 2 && !set_idx.is_empty() {
                let user = set_idx[pos % set_idx.len()];
                let others: Vec<usize> = all_sets.iter().copied().filter(|k| *k != user).collect();
                let def = others[(pos / 7) % others.len()];
                if let Top::RuleSet { items, .. } = &mut s.items[def] {
                    items.insert(0, Inner::Let("elsewhere".into(), Re::Char('a')));
                }
                if let Top::RuleSet { items, .. } = &mut s.items[user] {
                    for i in items.iter_mut() {
                        if let Inner::Rule(rule) = i {
                            rule.re = cat(Re::Var("elsewhere".into()), rule.re.clone());
                            break;
                        }
                    }
                }
                push(&mut out, "unbound-var-other-rule-set", pr(&s), false, true);
            }
            // … and a variable whose top-level `let` only comes AFTER the rule that uses it
            let mut s = base.clone();
            if let Some(rule) = nth_rule_mut(&mut s, pos) {
                rule.re = cat(rule.re.clone(), Re::Var("later".into()));
            }
            s.items.push(Top::Let("later".into(), Re::Char('a')));
            push(&mut out, "var-used-before-definition", pr(&s), false, true);
        }
        1 => {
            let mut s = base.clone();
            if let Some(rule) = nth_rule_mut(&mut s, pos) {
                rule.re = alt(rule.re.clone(), Re::Builtin("no_such_builtin".into()));
            }
            push(&mut out, "unknown-builtin", pr(&s), false, late(pos));
            let mut s = base.clone();
            s.items.insert(0, Top::Let("unused9".into(), Re::Builtin("no_such_builtin".into())));
            push(&mut out, "unknown-builtin", pr(&s), true, false);
        }
        2 => {
            let (bad, _) = bad_diff_operand(pos);
            let mut s = base.clone();
            if let Some(rule) = nth_rule_mut(&mut s, pos) {
                rule.re = cat(rule.re.clone(), bad.clone());
                // keep `$` in tail position irrelevant: the definition is ill-formed anyway
            }
            push(&mut out, "bad-diff-operand", pr(&s), false, late(pos));
            let mut s = base.clone();
            s.items.insert(0, Top::Let("unused9".into(), bad));
            push(&mut out, "bad-diff-operand", pr(&s), true, false);
        }
        17 => {
            // the violation sits in a RIGHT CONTEXT; in half of the cases the rule's regex repeats
            // the regex of an earlier context-free rule (so the rule itself can never win)
            let bads: Vec<(Re, &'static str)> = vec![
                (Re::Var("undefined_ctx_var".into()), "unbound-var-in-ctx"),
                (Re::Builtin("no_such_builtin".into()), "unknown-builtin-in-ctx"),
                (bad_diff_operand(pos).0, "bad-diff-operand-in-ctx"),
            ];
            for (k, (bad, kind)) in bads.into_iter().enumerate() {
                let mut s = base.clone();
                let n = s.n_rules();
                if n == 0 {
                    continue;
                }
                let j = (pos + k) % n;
                let earlier: Option<Re> = if j > 0 && (pos / 3 + k) % 2 == 0 {
                    // an earlier rule of the same rule set without context
                    let rules = s.rules();
                    rules[..j].iter().rev().find(|r| r.ctx.is_none() && !r.re.has_eoi()).map(|r| r.re.clone())
                } else {
                    None
                };
                {
                    let mut rules = s.rules_mut();
                    if let Some(e) = earlier {
                        rules[j].re = e;
                    }
                    rules[j].ctx = Some(bad);
                }
                push(&mut out, kind, pr(&s), false, j >= 1);
            }
        }
        3 => {
            // `#` operand that is not a class, through a variable
            let mut s = base.clone();
            s.items.insert(0, Top::Let("strv".into(), Re::Str("ab".into())));
            if let Some(rule) = nth_rule_mut(&mut s, pos) {
                rule.re = cat(rule.re.clone(), diff(Re::Any, Re::Var("strv".into())));
            }
            push(&mut out, "bad-diff-operand-via-var", pr(&s), false, late(pos));
        }
        4 => {
            // variable defined twice: top/top, top/local, local/local
            let mut s = base.clone();
            s.items.insert(0, Top::Let("dup".into(), Re::Char('a')));
            let at = 1 + pos % s.items.len();
            s.items.insert(at, Top::Let("dup".into(), Re::Char('b')));
            push(&mut out, "var-twice-top-top", pr(&s), false, at > 1);
            let mut s = base.clone();
            if s.named() {
                s.items.insert(0, Top::Let("dup".into(), Re::Char('a')));
                let mut k = pos;
                for t in s.items.iter_mut() {
                    if let Top::RuleSet { items, .. } = t {
                        if k % 2 == 0 {
                            items.insert(0, Inner::Let("dup".into(), Re::Char('b')));
                            break;
                        }
                        k /= 2;
                    }
                }
                if pr(&s).matches("let dup").count() == 2 {
                    push(&mut out, "var-twice-top-local", pr(&s), false, true);
                }
                let mut s = base.clone();
                for t in s.items.iter_mut() {
                    if let Top::RuleSet { items, .. } = t {
                        items.insert(0, Inner::Let("dup".into(), Re::Char('a')));
                        let at = 1 + pos % items.len();
                        items.insert(at, Inner::Let("dup".into(), Re::Char('b')));
                        break;
                    }
                }
                push(&mut out, "var-twice-local-local", pr(&s), false, true);
            }
        }
        5 => {
            // rule set defined twice (including Init)
            let mut s = base.clone();
            let sets: Vec<usize> = s.items.iter().enumerate().filter(|(_, t)| matches!(t, Top::RuleSet { .. })).map(|(k, _)| k).collect();
            if !sets.is_empty() {
                let k = sets[pos % sets.len()];
                let dup = s.items[k].clone();
                s.items.push(dup);
                push(&mut out, "ruleset-twice", pr(&s), false, true);
            }
        }
        6 => {
            // first rule set not named Init
            let mut s = base.clone();
            let mut done = false;
            for t in s.items.iter_mut() {
                if let Top::RuleSet { name, .. } = t {
                    if name == "Init" {
                        *name = "Start".into();
                        done = true;
                    }
                    break;
                }
            }
            if done {
                push(&mut out, "first-set-not-init", pr(&s), false, false);
            }
            // Init exists but is not the first rule set
            let mut s = base.clone();
            let sets: Vec<usize> = s.items.iter().enumerate().filter(|(_, t)| matches!(t, Top::RuleSet { .. })).map(|(k, _)| k).collect();
            if sets.len() >= 2 {
                let other = sets[1 + pos % (sets.len() - 1)];
                s.items.swap(sets[0], other);
                push(&mut out, "init-not-first", pr(&s), false, true);
            } else if sets.len() == 1 {
                s.items.insert(sets[0], Top::RuleSet { name: "Before".into(), items: vec![Inner::Rule(Rule { re: Re::Char('q'), ctx: None, kind: Kind::Simple })] });
                push(&mut out, "init-not-first", pr(&s), false, true);
            }
        }
        7 => {
            // named and unnamed rules mixed, either order
            let mut s = base.clone();
            let stray = Top::Rule(Rule {
                re: Re::Char('q'),
                ctx: None,
                kind: Kind::Simple,
            });
            if s.named() {
                if pos % 2 == 0 {
                    s.items.push(stray);
                } else {
                    let first_set = s.items.iter().position(|t| matches!(t, Top::RuleSet { .. })).unwrap_or(0);
                    s.items.insert(first_set, stray);
                }
            } else {
                s.items.push(Top::RuleSet {
                    name: "Init".into(),
                    items: vec![Inner::Rule(Rule {
                        re: Re::Char('q'),
                        ctx: None,
                        kind: Kind::Simple,
                    })],
                });
            }
            push(&mut out, "named-unnamed-mixed", pr(&s), false, true);
        }
        8 => {
            let mut s = base.clone();
            let at = pos % (s.items.len() + 1);
            s.items.insert(at, Top::ErrorType);
            if !base.has_error_type() {
                s.items.insert(0, Top::ErrorType);
            }
            push(&mut out, "error-type-twice", pr(&s), false, at > 0);
        }
        9 => {
            let d = pr(&base);
            let def = d.replacen("-> u32;", "-> u32;\n    type Fehler = rt::UErr;", 1);
            push(&mut out, "type-with-other-name", def, false, false);
        }
        10 => {
            // missing `;` after a let
            let mut s = base.clone();
            s.items.insert(pos % (s.items.len() + 1), Top::Let("semi".into(), Re::Char('a')));
            let d = pr(&s);
            let def = d.replacen("let semi = 'a';", "let semi = 'a'", 1);
            push(&mut out, "syntax-missing-semicolon", def, false, true);
        }
        11 => {
            // missing `,` after a rule without right-hand side / missing `=>`
            let d = pr(&base);
            let def = if let Some(p) = d.find(" => |lexer|") {
                format!("{}{}", &d[..p], d[p..].replacen(" => |lexer|", " |lexer|", 1))
            } else if let Some(p) = d.rfind(" = ") {
                format!("{} {}", &d[..p], &d[p + 3..])
            } else {
                d.replacen(",\n", "\n", 1)
            };
            push(&mut out, "syntax-missing-arrow-or-comma", def, false, true);
        }
        12 => {
            let d = pr(&base);
            let def = d.replacen("-> u32;", "-> u32;\n    stray_identifier", 1);
            push(&mut out, "syntax-stray-identifier", def, false, false);
            let def2 = d.replacen("rule Init", "rules Init", 1);
            if def2 != d {
                push(&mut out, "syntax-unknown-top-level-identifier", def2, false, false);
            }
        }
        13 => {
            let mut s = base.clone();
            s.items.insert(pos % (s.items.len() + 1), Top::Let("noeq".into(), Re::Char('a')));
            let d = pr(&s);
            push(&mut out, "syntax-let-without-eq", d.replacen("let noeq = 'a';", "let noeq 'a';", 1), false, true);
        }
        14 => {
            // malformed bracket content
            let mut s = base.clone();
            if let Some(rule) = nth_rule_mut(&mut s, pos) {
                rule.re = cat(rule.re.clone(), Re::Set(vec![SetItem::R('y', 'z')]));
            }
            let d = pr(&s);
            let variants = ["['y'-]", "['y' - - 'z']", "[\"yz\"]", "['y'-'z' _]"];
            let def = d.replacen("['y'-'z']", variants[pos % variants.len()], 1);
            push(&mut out, "syntax-malformed-bracket-set", def, false, late(pos));
        }
        15 => {
            // token-level mutation of one rule's regex, judged by the grammar recogniser
            use oracle::syntax::{is_regex, join, tokenize, Tok};
            let rules = base.rules();
            if !rules.is_empty() {
                let k = pos % rules.len();
                let text = print_re(&rules[k].re, Paren::Full);
                if let Some(toks) = tokenize(&text) {
                    let vocab = [
                        Tok::P('('), Tok::P(')'), Tok::P('['), Tok::P(']'), Tok::P('|'), Tok::P('*'), Tok::P('+'), Tok::P('?'),
                        Tok::P('#'), Tok::P('$'), Tok::P('$'), Tok::P('_'), Tok::P('-'), Tok::Char("'a'".into()), Tok::Char("'z'".into()),
                        Tok::Str("\"ab\"".into()), Tok::Ident("x".into()), Tok::Ident("alphabetic".into()),
                    ];
                    let edits = sample(&proptest::collection::vec(any::<u32>(), 9), r);
                    for e in edits.chunks(3) {
                        let mut t = toks.clone();
                        let at = e[0] as usize % (t.len() + 1);
                        let v = vocab[e[1] as usize % vocab.len()].clone();
                        match e[2] % 5 {
                            0 if at < t.len() => {
                                t.remove(at);
                            }
                            1 => t.insert(at, v),
                            2 if at < t.len() => t[at] = v,
                            3 if at + 1 < t.len() => t.swap(at, at + 1),
                            _ if at < t.len() => {
                                let d = t[at].clone();
                                t.insert(at, d);
                            }
                            _ => t.push(v),
                        }
                        if t != toks && !is_regex(&t) {
                            let def = pipe::macro_body(&base.print_macro_with("Lexer", Some(&(k as u32, join(&t)))));
                            push(&mut out, "syntax-token-mutation", def, false, k >= 1);
                        }
                    }
                }
            }
        }
        _ => {
            // unbalanced / dangling operators
            let mut s = base.clone();
            if let Some(rule) = nth_rule_mut(&mut s, pos) {
                rule.re = cat(rule.re.clone(), Re::Str("MARK".into()));
            }
            let d = pr(&s);
            let variants = ["\"MARK\" |", "\"MARK\" #", "\"MARK\" | | 'a'", "\"MARK\" > > 'a'"];
            let def = d.replacen("\"MARK\"", variants[pos % variants.len()], 1);
            push(&mut out, "syntax-dangling-operator", def, false, late(pos));
        }
    }
    out
}

pub fn run_c17(tier: Tier) -> i32 {
    let mut ev = Evidence::new("C17", tier);
    pipe::ensure_built();
    let mut r = runner(seed(), "C17-mutants");
    let n = tier.pick(3000, 40000);
    let mut ms: Vec<Mutant> = vec![];
    for i in 0..n {
        ms.extend(mutants(&mut r, i));
    }
    let defs: Vec<String> = ms.iter().map(|m| m.def.clone()).collect();
    let res = pipe::expand_all(&defs, EXPAND_BUDGET, false, 12);
    let known = known_findings("C17");
    let mut violations: Vec<(usize, String)> = vec![];
    let mut known_seen: BTreeMap<&'static str, usize> = BTreeMap::new();
    let mut by_kind: BTreeMap<&'static str, (usize, usize)> = BTreeMap::new();
    let mut nt = std::collections::HashSet::new();
    let mut samples = vec![];
    for (i, (m, e)) in ms.iter().zip(res.iter()).enumerate() {
        let ent = by_kind.entry(m.kind).or_insert((0, 0));
        ent.0 += 1;
        let rejected = e.rejected();
        if rejected {
            ent.1 += 1;
        }
        if m.late && nt.insert(fnv64(m.def.as_bytes())) && samples.len() < 4 && i % 211 == 5 {
            samples.push(json!({"kind": m.kind, "definition": m.def, "expansion": e.short()}));
        }
        match e {
            Expand::Ok { .. } => {
                let sig = format!("kind={} location=unreferenced-let", m.kind);
                if m.in_unreferenced_let && known.iter().any(|k| k.signature == sig) {
                    *known_seen.entry(m.kind).or_insert(0) += 1;
                } else {
                    violations.push((i, format!("ill-formed definition ({}) was turned into a lexer", m.kind)));
                }
            }
            Expand::Timeout(_) | Expand::Died | Expand::Nondeterministic(_) | Expand::Unparsable(_) => {
                violations.push((i, format!("ill-formed definition ({}) is neither rejected nor expanded: {}", m.kind, e.short())));
            }
            _ => {}
        }
    }
    // A sample goes through real rustc and must fail to compile.
    let mut modules: BTreeMap<usize, String> = BTreeMap::new();
    let n_rustc = tier.pick(60, 400);
    let step = (ms.len() / n_rustc).max(1);
    for i in (0..ms.len()).step_by(step) {
        if res[i].rejected() {
            modules.insert(i, format!("lexgen::lexer! {{\n{}\n}}\n{}", ms[i].def, "pub fn run(_c: &rt::Case) -> rt::Trace { rt::Trace::default() }\n"));
        }
    }
    let n_modules = modules.len();
    let build = genc::build_modules(&format!("c17_{}_{}", tier.name(), seed()), modules.clone(), 8);
    for i in modules.keys() {
        if !build.failed.contains_key(i) {
            violations.push((*i, format!("ill-formed definition ({}) is rejected in-process but compiles with rustc", ms[*i].kind)));
        }
    }

    let mut printed = 0;
    for (i, reason) in violations.iter().take(5) {
        let body = json!({"property": "C17", "engine": "B", "seed": seed() as i64, "reason": reason, "kind": ms[*i].kind, "definition": ms[*i].def, "expect": "rejected"});
        let path = write_replay("C17", &body);
        report_violation("C17", &path, reason);
        printed += 1;
    }
    for (k, n) in &known_seen {
        println!(
            "KNOWN-FINDING: property=C17 kind={} location=unreferenced-let: {} generated definitions with this violation inside a `let` that no rule references were accepted (bindings are validated lazily)",
            k, n
        );
    }
    ev.set("evaluations", json!(ms.len()));
    ev.set("distinct_nontrivial", json!(nt.len()));
    ev.set("programs", json!(n_modules));
    ev.set("rejected_by_kind", json!(by_kind.iter().map(|(k, (a, b))| (k.to_string(), json!({"generated": a, "rejected": b}))).collect::<serde_json::Map<_, _>>()));
    ev.set("known_findings_seen", json!(known_seen));
    ev.set("samples", json!(samples));
    ev.set("rule", json!("a well-formed definition of a random profile (with `let`s) plus exactly ONE violation at a random position: unbound variable; unknown built-in; `#` operand that is a string / repetition / concatenation / `$` (directly or through a variable); variable defined twice (top/top, top/local, local/local); rule set defined twice (incl. Init); first rule set not Init; named and unnamed rules mixed (either order); `type Error` twice; `type X = …` with another name; syntax: missing `;` after let, missing `=>` / `,`, stray identifier, unknown top-level identifier, `let` without `=`, malformed bracket-set content, dangling operators. Oracle: in-process expansion must panic or return compile_error!, never lexer code; a sample is also compiled with rustc and must fail. Non-trivial = the violation sits after at least one well-formed item and not in the first rule; distinct by definition text. The first three kinds placed inside a `let` that no rule references are accepted today (known finding, exact signature kind + location)."));
    ev.set("exhaustive", json!(false));
    ev.assumptions = vec!["macro panics and compile_error! both count as rejection".into()];
    ev.violations = violations.len() as i64;
    ev.write();
    eprintln!("[C17] {} ill-formed definitions, {} violations, {} compiled with rustc", ms.len(), violations.len(), n_modules);
    if printed > 0 {
        1
    } else {
        0
    }
}

pub fn replay(v: &Value) -> i32 {
    pipe::ensure_built();
    let def = v["definition"].as_str().unwrap_or("");
    let prop = v["property"].as_str().unwrap_or("?");
    let mut w = Worker::new();
    if v["part"].as_str() == Some("parse") {
        println!("replay of a parse round trip is not stored with its expected tree; re-run ./check C16");
        return 2;
    }
    let def_body = if def.contains("lexgen::lexer!") { pipe::macro_body(def) } else { def.to_string() };
    let res = w.expand_opt(&def_body, false, true, EXPAND_BUDGET * 2);
    println!("expansion: {}", res.short());
    let expect_reject = v["expect"].as_str() == Some("rejected") || v["reason"].as_str().map(|r| r.contains("expected rejection")).unwrap_or(false);
    let mut bad = if expect_reject { !res.rejected() } else { !res.is_ok() };
    if !bad && !expect_reject && v["reason"].as_str().map(|r| r.contains("without debug assertions")).unwrap_or(false) {
        // the same definition through the build without debug assertions / overflow checks
        pipe::ensure_plain_built();
        pipe::use_plain_build(true);
        let mut w2 = Worker::new();
        let res2 = w2.expand_opt(&def_body, false, true, EXPAND_BUDGET * 2);
        pipe::use_plain_build(false);
        println!("expansion (no debug assertions): {}", res2.short());
        bad = match (&res, &res2) {
            (Expand::Ok { hash: a, .. }, Expand::Ok { hash: b, .. }) => a != b,
            _ => true,
        };
    }
    if bad {
        println!("VIOLATION property={} replay=<given file>", prop);
        1
    } else {
        println!("replay: no violation (for compile failures re-run ./check {})", prop);
        0
    }
}

#[allow(dead_code)]
fn _unused() {
    let _ = props::ABC;
}
