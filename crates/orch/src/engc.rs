//! Engine C wrapper: builds and runs the direct module harnesses (range map, table generator).

use crate::util::*;
use serde_json::{json, Value};
use std::process::{Command, Stdio};

pub fn run_enginec(args: &[&str]) -> Value {
    if let Err(e) = build_rd("enginec", true) {
        infra(&format!("cannot build the Engine C harness against /repo:\n{}", e));
    }
    let out = Command::new(rd_bin("enginec", true))
        .args(args)
        .stdout(Stdio::piped())
        .stderr(Stdio::piped())
        .output()
        .unwrap_or_else(|e| infra(&format!("cannot run enginec: {}", e)));
    if !out.status.success() {
        infra(&format!(
            "enginec {:?} failed: {}",
            args,
            String::from_utf8_lossy(&out.stderr)
        ));
    }
    let text = String::from_utf8_lossy(&out.stdout);
    serde_json::from_str(text.trim()).unwrap_or_else(|e| infra(&format!("enginec output is not JSON: {} / {}", e, text)))
}

/// Reports the violations of an enginec report; returns how many were printed.
pub fn report(property: &str, part: &str, rep: &Value) -> usize {
    let mut n = 0;
    if let Some(vs) = rep["violations"].as_array() {
        for v in vs {
            let body = json!({
                "property": property,
                "engine": "C",
                "part": part,
                "seed": seed() as i64,
                "reason": v["reason"],
                "payload": v,
            });
            let path = write_replay(property, &body);
            report_violation(property, &path, &crate::pipe::trunc(v["reason"].as_str().unwrap_or(""), 400));
            n += 1;
        }
    }
    n
}

pub fn replay(v: &Value) -> i32 {
    let part = v["part"].as_str().unwrap_or("");
    let arg = v["payload"].to_string();
    let cmd = match part {
        "rangemap" => "replay-rangemap",
        "tablegen" => "replay-tablegen",
        _ => infra("unknown Engine C replay part"),
    };
    let rep = run_enginec(&[cmd, &arg]);
    let n = rep["violations"].as_array().map(|a| a.len()).unwrap_or(0);
    if n > 0 {
        println!(
            "VIOLATION property={} replay=<given file>",
            v["property"].as_str().unwrap_or("?")
        );
        println!("  {}", rep["violations"][0]["reason"].as_str().unwrap_or(""));
        1
    } else {
        println!("replay: no violation");
        0
    }
}

pub fn run_c18(tier: Tier) -> i32 {
    let mut ev = Evidence::new("C18", tier);
    let s = seed().to_string();
    let rep = run_enginec(&["tablegen", tier.name(), &s]);
    let n = report("C18", "tablegen", &rep);
    for k in ["evaluations", "distinct_nontrivial", "samples", "exhaustive_boundary_predicates", "real_predicates", "random_predicates", "scalars_scanned_per_predicate"] {
        ev.set(k, rep[k].clone());
    }
    ev.set("rule", json!("predicates handed to char_range_gen's own generate_char_fn_ranges as `fn(char) -> bool` items reading a thread-local description: EXHAUSTIVELY every union of the 10 atomic segments cut at {0, 1, 0x7F, 0x80, 0xD7FE, 0xD7FF, 0xE000, 0xE001, 0x10FFFE, 0x10FFFF} (2^10 predicates, includes constant true/false), the 20 real predicates of the generator's own FNS table, and random predicates (1-200 toggle points biased to the gap and both ends; hash-sparse membership). Oracle: independent run-length encoding of the membership of all 1,112,064 scalar values; the output must equal it exactly and be sorted, disjoint, non-adjacent (also across the surrogate gap), with scalar end points. Non-trivial = the predicate holds at char::MAX or changes value at/next to the surrogate gap; distinct by predicate."));
    ev.set("exhaustive", json!(true));
    ev.set("exhaustive_note", json!("exhaustive in the boundary-predicate family and in the code-point dimension (every scalar value is scanned for every predicate); random family sampled"));
    ev.assumptions = vec!["proptest, the Rust char predicates and unicode-xid are trusted".into()];
    ev.violations = n as i64;
    ev.write();
    if n > 0 {
        1
    } else {
        0
    }
}

/// Part (a) of C11; returns (report, number of violations printed).
pub fn run_c11a(tier: Tier) -> (Value, usize) {
    let s = seed().to_string();
    let rep = run_enginec(&["rangemap", tier.name(), &s]);
    let n = report("C11", "rangemap", &rep);
    (rep, n)
}
