//! Engine A properties: profiles, case plans, facets, non-triviality rules.

use crate::enga::*;
use crate::server::Outcome;
use crate::util::Tier;
use oracle::gen::{self, KindMix, Profile, ReParams};
use oracle::model::{Compiled, ModelOut};
use oracle::re::Re;
use oracle::spec::Spec;
use proptest::test_runner::TestRunner;
use proto::{Case, Ctor, Dec};

pub const ABC: [char; 3] = ['a', 'b', 'c'];
pub const ABCDE: [char; 5] = ['a', 'b', 'c', 'd', 'e'];
/// newline, tab, 2-byte, 3-byte, wide, 4-byte wide, zero-width combining
pub const UNI: [char; 10] = ['a', 'b', '\n', '\t', 'é', '€', '京', '💝', '\u{301}', 'c'];

// ---------------------------------------------------------------------------------------------
// Profiles

pub fn p_rewind() -> Profile {
    let mut re = ReParams::basic(&ABC);
    re.w_any = 1;
    re.size = 10;
    Profile {
        name: "rewind",
        re,
        sets: (1, 1),
        rules: (2, 6),
        ctx_pct: 15,
        eoi_pct: 0,
        kinds: KindMix::tokens_only(),
        unnamed_pct: 50,
        allow_empty_sets: false,
    }
}

pub fn p_sets() -> Profile {
    let mut re = ReParams::basic(&ABC);
    re.size = 6;
    re.depth = 3;
    Profile {
        name: "sets",
        re,
        sets: (2, 6),
        rules: (0, 5),
        ctx_pct: 5,
        eoi_pct: 5,
        kinds: KindMix::mixed(),
        unnamed_pct: 0,
        allow_empty_sets: true,
    }
}

pub fn p_ctx() -> Profile {
    let mut re = ReParams::basic(&ABC);
    re.size = 8;
    Profile {
        name: "ctx",
        re,
        sets: (1, 2),
        rules: (2, 5),
        ctx_pct: 60,
        eoi_pct: 10,
        kinds: KindMix::tokens_only(),
        unnamed_pct: 30,
        allow_empty_sets: false,
    }
}

pub fn p_eoi() -> Profile {
    let mut re = ReParams::basic(&ABC);
    re.size = 7;
    Profile {
        name: "eoi",
        re,
        sets: (1, 3),
        rules: (1, 4),
        ctx_pct: 15,
        eoi_pct: 40,
        kinds: KindMix::mixed(),
        unnamed_pct: 20,
        allow_empty_sets: true,
    }
}

pub fn p_unicode() -> Profile {
    let mut re = ReParams::basic(&UNI);
    re.size = 8;
    re.w_any = 2;
    re.w_set = 5;
    let mut kinds = KindMix::mixed();
    kinds.sw = 1;
    kinds.swret = 1;
    Profile {
        name: "unicode",
        re,
        sets: (1, 2),
        rules: (2, 5),
        ctx_pct: 10,
        eoi_pct: 5,
        kinds,
        unnamed_pct: 30,
        allow_empty_sets: false,
    }
}

pub fn p_actions() -> Profile {
    let mut re = ReParams::basic(&ABC);
    re.size = 6;
    Profile {
        name: "actions",
        re,
        sets: (1, 3),
        rules: (2, 6),
        ctx_pct: 10,
        eoi_pct: 10,
        kinds: KindMix::mixed(),
        unnamed_pct: 25,
        allow_empty_sets: false,
    }
}

// ---------------------------------------------------------------------------------------------
// Case plans

pub struct Plan {
    pub exhaustive_cap: usize,
    pub guided: usize,
    pub wild: usize,
    pub scripts: bool,
    pub script_len: usize,
    /// Number of different scripts tried per exhaustive input (when `scripts`).
    pub scripts_per_input: usize,
}

fn all_rule_res(ctx: &SpecCtx) -> Vec<&Re> {
    ctx.flat.sets.iter().flat_map(|s| s.rules.iter().map(|r| &r.re)).collect()
}

/// Alphabet for bounded-exhaustive enumeration: class representatives plus one foreign character,
/// thinned to at most `max` letters (the literals of the definition first).
pub fn enum_alphabet(ctx: &SpecCtx, max: usize) -> Vec<char> {
    let mut v: Vec<char> = ctx.reps.clone();
    if v.len() > max.saturating_sub(1) {
        v.truncate(max.saturating_sub(1));
    }
    if let Some(f) = ctx.foreign.first() {
        v.push(*f);
    }
    v
}

pub fn inputs(ctx: &SpecCtx, r: &mut TestRunner, plan: &Plan) -> Vec<String> {
    let mut out = vec![];
    let alpha = enum_alphabet(ctx, 5);
    if plan.exhaustive_cap > 0 && !alpha.is_empty() {
        let l = gen::max_len_for(alpha.len(), plan.exhaustive_cap);
        out.extend(gen::all_strings(&alpha, l));
    }
    let res = all_rule_res(ctx);
    let mut extra: Vec<char> = ctx.foreign.iter().take(2).copied().collect();
    extra.extend(ctx.reps.iter().take(4));
    let tapes = gen::tape_strategy(48);
    for _ in 0..plan.guided {
        let t = sample(&tapes, r);
        out.push(gen::guided_input(&res, &extra, &t, 6));
    }
    let mut wild_chars = ctx.reps.clone();
    wild_chars.extend(ctx.foreign.iter().take(2));
    if wild_chars.is_empty() {
        wild_chars.push('a');
    }
    let wild = gen::wild_input(wild_chars);
    for _ in 0..plan.wild {
        out.push(sample(&wild, r));
    }
    out
}

pub fn cases_from(ctx: &SpecCtx, r: &mut TestRunner, plan: &Plan) -> Vec<Case> {
    let ins = inputs(ctx, r, plan);
    let n_sets = ctx.flat.sets.len() as u32;
    let uses_script = ctx
        .flat
        .sets
        .iter()
        .any(|s| s.rules.iter().any(|r| matches!(r.kind, oracle::spec::Kind::Script | oracle::spec::Kind::FScript)));
    let ss = gen::script_strategy(n_sets, ctx.flat.fallible, plan.script_len);
    let mut out = Vec::with_capacity(ins.len());
    for i in ins {
        if plan.scripts && uses_script {
            for _ in 0..plan.scripts_per_input.max(1) {
                out.push(gen::simple_case(i.clone(), sample(&ss, r)));
            }
        } else {
            out.push(gen::simple_case(i, vec![]));
        }
    }
    out
}

fn has_ctx(spec: &Spec) -> bool {
    spec.rules().iter().any(|r| r.ctx.is_some())
}

// ---------------------------------------------------------------------------------------------
// C01

pub struct C01;

impl Prop for C01 {
    fn id(&self) -> &'static str {
        "C01"
    }
    fn profiles(&self, tier: Tier) -> Vec<(Profile, usize)> {
        vec![(p_rewind(), tier.pick(320, 4000)), (p_ctx(), tier.pick(80, 1000))]
    }
    fn cases(&self, ctx: &SpecCtx, _c: &mut Compiled, r: &mut TestRunner, tier: Tier) -> Vec<Case> {
        cases_from(
            ctx,
            r,
            &Plan {
                exhaustive_cap: tier.pick(4000, 20000),
                guided: tier.pick(300, 1500),
                wild: 50,
                scripts: false,
                script_len: 0,
                scripts_per_input: 1,
            },
        )
    }
    fn judge(&self, _ctx: &SpecCtx, _case: &Case, model: &ModelOut, got: &Outcome) -> Verdict {
        let t = match basic_health(got) {
            Ok(t) => t,
            Err(e) => return Verdict::Bad(e),
        };
        match compare_runs(&model.trace.a, &t.a, &Facet::TOKENS) {
            Err(e) => Verdict::Bad(e),
            Ok(()) => Verdict::Ok {
                nontrivial: model.facts.rewinds > 0 || model.facts.ties > 0,
            },
        }
    }
    fn rule(&self) -> String {
        "definitions: random rule sets over {a,b,c} with shared prefixes, loops and right contexts; inputs: all strings over the definition's class alphabet up to the length that keeps the count under the cap, plus lexemes sampled from the rules with mutations, plus unstructured strings. A case is (definition, input). Non-trivial = the reference had to look beyond the end of the match it chose (a rewind was required) or two rules tied on the longest match; distinct = distinct (definition, input).".into()
    }
    fn min_nontrivial(&self, _tier: Tier) -> usize {
        200
    }
}

pub fn all_props() -> Vec<Box<dyn Prop>> {
    vec![Box::new(C01)]
}

#[allow(dead_code)]
fn _unused(_: Ctor, _: Dec) {
    let _ = has_ctx;
}
