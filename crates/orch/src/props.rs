//! Engine A properties: profiles, case plans, facets, non-triviality rules.

use crate::enga::*;
use crate::server::Outcome;
use crate::util::Tier;
use oracle::gen::{self, KindMix, Profile, ReParams};
use oracle::model::{Compiled, ModelOut};
use oracle::re::{plus, Re};
use oracle::spec::{Inner, Kind, Rule, Spec, Top};
use proptest::test_runner::TestRunner;
use proto::{Case, Ctor, Dec};

pub const ABC: [char; 3] = ['a', 'b', 'c'];
pub const ABCDE: [char; 5] = ['a', 'b', 'c', 'd', 'e'];
/// newline, tab, 2-byte, 3-byte, wide, 4-byte wide, zero-width combining
pub const UNI: [char; 10] = ['a', 'b', '\n', '\t', 'é', '€', '京', '💝', '\u{301}', 'c'];

// ---------------------------------------------------------------------------------------------
// Profiles

pub fn p_rewind() -> Profile {
    let mut re = ReParams::basic(&ABC);
    re.w_any = 1;
    re.size = 10;
    Profile {
        name: "rewind",
        re,
        sets: (1, 1),
        rules: (2, 6),
        ctx_pct: 15,
        eoi_pct: 0,
        kinds: {
            // tokens, and the `re,` skip form (several skip rules per definition occur)
            let mut k = KindMix::tokens_only();
            k.skip = 3;
            k
        },
        unnamed_pct: 50,
        allow_empty_sets: false,
    }
}

pub fn p_sets() -> Profile {
    let mut re = ReParams::basic(&ABC);
    re.size = 6;
    re.depth = 3;
    Profile {
        name: "sets",
        re,
        sets: (2, 6),
        rules: (0, 5),
        ctx_pct: 5,
        eoi_pct: 5,
        kinds: KindMix::mixed(),
        unnamed_pct: 0,
        allow_empty_sets: true,
    }
}

pub fn p_ctx() -> Profile {
    let mut re = ReParams::basic(&ABC);
    re.size = 8;
    Profile {
        name: "ctx",
        re,
        sets: (1, 2),
        rules: (2, 5),
        ctx_pct: 60,
        eoi_pct: 10,
        kinds: KindMix::tokens_only(),
        unnamed_pct: 30,
        allow_empty_sets: false,
    }
}

pub fn p_eoi() -> Profile {
    let mut re = ReParams::basic(&ABC);
    re.size = 7;
    Profile {
        name: "eoi",
        re,
        sets: (1, 3),
        rules: (1, 4),
        ctx_pct: 15,
        eoi_pct: 40,
        kinds: KindMix::mixed(),
        unnamed_pct: 20,
        allow_empty_sets: true,
    }
}

pub fn p_unicode() -> Profile {
    let mut re = ReParams::basic(&UNI);
    re.size = 8;
    re.w_any = 2;
    re.w_set = 5;
    let mut kinds = KindMix::mixed();
    kinds.sw = 1;
    kinds.swret = 1;
    Profile {
        name: "unicode",
        re,
        sets: (1, 2),
        rules: (2, 5),
        ctx_pct: 10,
        eoi_pct: 5,
        kinds,
        unnamed_pct: 30,
        allow_empty_sets: false,
    }
}

pub fn p_actions() -> Profile {
    let mut re = ReParams::basic(&ABC);
    re.size = 6;
    Profile {
        name: "actions",
        re,
        sets: (1, 3),
        rules: (2, 6),
        ctx_pct: 10,
        eoi_pct: 10,
        kinds: KindMix::mixed(),
        unnamed_pct: 25,
        allow_empty_sets: false,
    }
}

/// Everything at once: several rule sets, right contexts, `$`, multi-byte characters, `_`,
/// class differences, exact built-ins, all action kinds; generate_specs additionally factors
/// `let`s, duplicates rules and adds keyword shapes for this profile. Feature interactions are
/// where the remaining defects hide.
pub fn p_sink() -> Profile {
    let mut re = ReParams::basic(&['a', 'b', 'c', 'é', '京', '\n']);
    re.w_any = 2;
    re.w_diff = 2;
    re.w_builtin = 1;
    re.builtins = vec!["ascii_lowercase", "ascii_digit", "whitespace"];
    re.size = 8;
    Profile {
        name: "sink",
        re,
        sets: (1, 4),
        rules: (1, 5),
        ctx_pct: 30,
        eoi_pct: 15,
        kinds: KindMix::mixed(),
        unnamed_pct: 15,
        allow_empty_sets: true,
    }
}

/// "Real lexer" alphabet: the end points of the classes people actually write (digits, hex,
/// upper/lower case, underscore, punctuation after 'z', Latin-1 letters), so that pieces like
/// 0-9, A-F, A-Z, a-f, a-z and their neighbours occur, with sets of up to five items.
pub fn p_real() -> Profile {
    let mut re = ReParams::basic(&['0', '9', 'A', 'F', 'Z', '_', 'a', 'f', 'z', '{', '~', '\u{c0}', '\u{ff}', ' ']);
    re.w_set = 14;
    re.w_char = 6;
    re.w_str = 2;
    re.w_any = 1;
    re.w_diff = 2;
    re.size = 7;
    re.max_set_items = 5;
    re.extra_atoms = gen::typical_classes();
    re.w_extra = 10;
    Profile {
        name: "real",
        re,
        sets: (1, 2),
        rules: (1, 4),
        ctx_pct: 15,
        eoi_pct: 5,
        kinds: KindMix::tokens_only(),
        unnamed_pct: 40,
        allow_empty_sets: false,
    }
}

pub fn sink_adjust(spec: &mut Spec, r: &mut TestRunner) {
    let t = sample(&gen::tape_strategy(80), r);
    let sel = t.first().copied().unwrap_or(0);
    let rest = t.get(1..).unwrap_or(&[]);
    if sel % 2 == 0 {
        gen::duplicate_rules(spec, rest);
    }
    if sel % 3 == 0 {
        gen::keyword_prefixes(spec, rest, &['a', 'b', 'é']);
    }
    if sel % 5 < 2 {
        gen::factor_lets(spec, rest, 25);
        gen::reuse_vars(spec, rest, 10);
        gen::repair_nullable(spec, 'a');
    } else if sel % 5 == 2 && spec.named() {
        gen::local_ctx_lets(spec);
    }
}

// ---------------------------------------------------------------------------------------------
// Case plans

pub struct Plan {
    pub exhaustive_cap: usize,
    pub guided: usize,
    pub wild: usize,
    pub scripts: bool,
    pub script_len: usize,
    /// Number of different scripts tried per exhaustive input (when `scripts`).
    pub scripts_per_input: usize,
}

fn all_rule_res(ctx: &SpecCtx) -> Vec<&Re> {
    ctx.flat.sets.iter().flat_map(|s| s.rules.iter().map(|r| &r.re)).collect()
}

/// Alphabet for bounded-exhaustive enumeration: class representatives plus one foreign character,
/// thinned to at most `max` letters (the literals of the definition first).
pub fn enum_alphabet(ctx: &SpecCtx, max: usize) -> Vec<char> {
    let mut v: Vec<char> = ctx.reps.clone();
    if v.len() > max.saturating_sub(1) {
        v.truncate(max.saturating_sub(1));
    }
    if let Some(f) = ctx.foreign.first() {
        v.push(*f);
    }
    v
}

pub fn inputs(ctx: &SpecCtx, r: &mut TestRunner, plan: &Plan) -> Vec<String> {
    let mut out = vec![];
    let alpha = enum_alphabet(ctx, 5);
    if plan.exhaustive_cap > 0 && !alpha.is_empty() {
        let l = gen::max_len_for(alpha.len(), plan.exhaustive_cap);
        out.extend(gen::all_strings(&alpha, l));
    }
    let res = all_rule_res(ctx);
    let mut extra: Vec<char> = ctx.foreign.iter().take(2).copied().collect();
    extra.extend(ctx.reps.iter().take(4));
    let tapes = gen::tape_strategy(48);
    for _ in 0..plan.guided {
        let t = sample(&tapes, r);
        out.push(gen::guided_input(&res, &extra, &t, 6));
    }
    let mut wild_chars = ctx.reps.clone();
    wild_chars.extend(ctx.foreign.iter().take(2));
    if wild_chars.is_empty() {
        wild_chars.push('a');
    }
    let wild = gen::wild_input(wild_chars);
    for _ in 0..plan.wild {
        out.push(sample(&wild, r));
    }
    out
}

pub fn cases_from(ctx: &SpecCtx, r: &mut TestRunner, plan: &Plan) -> Vec<Case> {
    let ins = inputs(ctx, r, plan);
    let n_sets = ctx.flat.sets.len() as u32;
    let uses_script = ctx
        .flat
        .sets
        .iter()
        .any(|s| s.rules.iter().any(|r| matches!(r.kind, oracle::spec::Kind::Script | oracle::spec::Kind::FScript)));
    let ss = gen::script_strategy(n_sets, ctx.flat.fallible, plan.script_len);
    let mut out = Vec::with_capacity(ins.len());
    let ctors = gen::ctor_strategy();
    for (k, i) in ins.into_iter().enumerate() {
        // a share of the cases goes through the other constructors (iterator input included)
        let ctor = if k % 4 == 3 { sample(&ctors, r) } else { Ctor::NewWithState };
        let n0 = out.len();
        if plan.scripts && uses_script {
            for _ in 0..plan.scripts_per_input.max(1) {
                out.push(gen::simple_case(i.clone(), sample(&ss, r)));
            }
        } else {
            out.push(gen::simple_case(i, vec![]));
        }
        for c in out[n0..].iter_mut() {
            c.ctor = ctor;
        }
    }
    out
}

/// A few long inputs (hundreds to thousands of characters) made of sampled lexemes, kept only if
/// the reference needs at most `max_steps` symbol reads for them (maximal munch is quadratic or
/// cubic on adversarial inputs; those are left to C09's bounded inputs).
pub fn long_cases(ctx: &SpecCtx, comp: &mut Compiled, r: &mut TestRunner, n: usize, target_chars: usize, max_steps: u64) -> Vec<Case> {
    let res = all_rule_res(ctx);
    if res.is_empty() {
        return vec![];
    }
    let mut extra: Vec<char> = ctx.foreign.iter().take(1).copied().collect();
    extra.extend(ctx.reps.iter().take(3));
    let tapes = gen::tape_strategy(64);
    let ss = gen::script_strategy(ctx.flat.sets.len() as u32, ctx.flat.fallible, 40);
    let mut out = vec![];
    for _ in 0..n {
        let mut s = String::new();
        while s.chars().count() < target_chars {
            let t = sample(&tapes, r);
            let piece = gen::guided_input(&res, &extra, &t, 8);
            if piece.is_empty() {
                s.push(*ctx.reps.first().unwrap_or(&'a'));
            }
            s.push_str(&piece);
        }
        let case = gen::simple_case(s, sample(&ss, r));
        let before = comp.steps;
        let _ = oracle::model::run_model(comp, &case);
        if comp.steps - before <= max_steps {
            out.push(case);
        }
    }
    out
}

/// Inputs on which one attempt reads more than 65 536 characters: a sampled lexeme, one character
/// repeated 66 000-70 000 times, a terminator. Kept only if the reference needs at most
/// `max_steps` symbol reads (the repeated character must not start a quadratic cascade).
pub fn deep_cases(ctx: &SpecCtx, comp: &mut Compiled, r: &mut TestRunner, n: usize, max_steps: u64) -> Vec<Case> {
    let res = all_rule_res(ctx);
    if res.is_empty() || ctx.reps.is_empty() {
        return vec![];
    }
    let tapes = gen::tape_strategy(16);
    let mut out = vec![];
    let mut tried = 0;
    for k in 0..ctx.reps.len().min(6) {
        if out.len() >= n {
            break;
        }
        let c = ctx.reps[k];
        if c == '\n' {
            continue;
        }
        for end in [ctx.foreign.first().copied(), ctx.reps.get(k + 1).copied(), None] {
            tried += 1;
            if tried > 12 || out.len() >= n {
                break;
            }
            let t = sample(&tapes, r);
            let head = gen::guided_input(&res, &[], &t, 1);
            let build = |len: usize| {
                let mut s = head.clone();
                s.extend(std::iter::repeat(c).take(len));
                if let Some(e) = end {
                    s.push(e);
                }
                gen::simple_case(s, vec![])
            };
            // probe with 2 000 repetitions first: a quadratic cascade shows there already
            let probe = build(2_000);
            let before = comp.steps;
            let pm = oracle::model::run_model(comp, &probe);
            let probe_text: usize = pm.trace.a.log.iter().map(|e| e.text.as_ref().map(|t| t.len()).unwrap_or(0)).sum();
            // also skip what would give 10^5 items or (with continue_) quadratic amounts of
            // logged match text on the full-length input
            if comp.steps - before > 30_000 || pm.trace.a.items.len() > 60 || pm.trace.a.log.len() > 60 || probe_text > 30_000 {
                continue;
            }
            let case = build(66_000 + (t.len() * 311) % 4_000);
            let before = comp.steps;
            let m = oracle::model::run_model(comp, &case);
            // few items: the long run must be one lexeme (or one failed attempt), not 10^5 tokens
            let text_bytes: usize = m.trace.a.log.iter().map(|e| e.text.as_ref().map(|t| t.len()).unwrap_or(0)).sum();
            if comp.steps - before <= max_steps && m.trace.a.items.len() <= 2_000 && m.trace.a.log.len() <= 2_000 && text_bytes <= 1_000_000 {
                out.push(case);
            }
        }
    }
    out
}

/// Definitions built for rewinds over more than 65 536 characters: `h = 0`, `h c* t = 1` (or the
/// same as a right context, `h > c* t`), and a rule for `c`; h, c, t pairwise different.
pub fn deep_rewind_specs(r: &mut TestRunner, n: usize) -> Vec<(&'static str, Spec)> {
    let letters = ['a', 'b', 'c', 'd', 'e', 'é', '京'];
    let pick = proptest::sample::subsequence(letters.to_vec(), 3);
    let mut out = vec![];
    for i in 0..n {
        let mut v = sample(&pick, r);
        v.rotate_left(i % 3);
        let (h, c, t) = (Re::Char(v[0]), Re::Char(v[1]), Re::Char(v[2]));
        let long = oracle::re::cat(oracle::re::star(c.clone()), t.clone());
        let mut rules = match i % 3 {
            0 => vec![(h.clone(), None), (oracle::re::cat(h.clone(), long), None)],
            1 => vec![(oracle::re::cat(h.clone(), long), None), (h.clone(), None)],
            _ => vec![(h.clone(), Some(long)), (h.clone(), None)],
        };
        // the repeated character is lexed as ONE token after the rewind (a token per character
        // would mean 10^5 items per case and gigabytes of traces per definition)
        rules.push((plus(c.clone()), None));
        rules.push((t, None));
        let mut s = crate::props2::simple_spec(rules, i % 2 == 1, vec![]);
        if i % 4 == 3 {
            for rule in s.rules_mut() {
                rule.kind = Kind::Ret;
            }
        }
        out.push(("deep-rewind", s));
    }
    out
}

/// Inputs for `deep_rewind_specs`: h, then c repeated 65 535 … 70 000 times, then t / another
/// character / nothing.
pub fn deep_rewind_cases(ctx: &SpecCtx) -> Vec<Case> {
    let rules = ctx.spec.rules();
    if rules.len() < 3 {
        // a shrunk definition
        return vec![];
    }
    let (h, c, t) = match (rules.iter().find_map(|r| if let Re::Char(x) = r.re { Some(x) } else { None }), &rules[rules.len() - 2].re, &rules[rules.len() - 1].re) {
        (Some(h), Re::Char(c), Re::Char(t)) => (h, *c, *t),
        (Some(h), Re::Plus(p), Re::Char(t)) => match **p {
            Re::Char(c) => (h, c, *t),
            _ => return vec![],
        },
        _ => return vec![],
    };
    let mut out = vec![];
    for n in [65_535usize, 65_536, 65_537, 70_000] {
        for end in [Some(t), Some(h), None] {
            let mut s = String::new();
            s.push(h);
            s.extend(std::iter::repeat(c).take(n));
            if let Some(e) = end {
                s.push(e);
                s.push(h);
            }
            out.push(gen::simple_case(s, vec![]));
        }
    }
    out
}

fn has_ctx(spec: &Spec) -> bool {
    spec.rules().iter().any(|r| r.ctx.is_some())
}

// ---------------------------------------------------------------------------------------------
// Helpers shared by the judges

fn std_plan(tier: Tier, scripts: bool) -> Plan {
    Plan {
        exhaustive_cap: tier.pick(1500, 8000),
        guided: tier.pick(300, 1500),
        wild: 40,
        scripts,
        script_len: 10,
        scripts_per_input: 2,
    }
}

fn one<'a>(models: &'a [ModelOut], gots: &'a [Outcome]) -> Result<(&'a ModelOut, &'a proto::Trace), Verdict> {
    match basic_health(&gots[0]) {
        Ok(t) => Ok((&models[0], t)),
        Err(e) => Err(Verdict::Bad(e)),
    }
}

fn first_invalid_is_final_eoi(m: &ModelOut) -> bool {
    // all InvalidToken items of the reference are the single end-of-input error
    m.facts.invalid == m.facts.eoi_error_non_init
}

// ---------------------------------------------------------------------------------------------
// C01

pub struct C01;

impl Prop for C01 {
    fn id(&self) -> &'static str {
        "C01"
    }
    fn fuzz_facet(&self) -> Option<&'static str> {
        Some("C01")
    }
    fn profiles(&self, tier: Tier) -> Vec<(Profile, usize)> {
        vec![(p_rewind(), tier.pick(320, 4000)), (p_ctx(), tier.pick(80, 1000)), (p_sink(), tier.pick(60, 800)), (p_real(), tier.pick(80, 1000))]
    }
    fn custom_specs(&self, tier: Tier, r: &mut TestRunner) -> Vec<(&'static str, Spec)> {
        // very long literals (chains of 30-60 single-predecessor states) next to ordinary rules
        use oracle::re::{cat, plus, Re};
        let mut out = vec![];
        let letters = proptest::collection::vec(proptest::sample::select(vec!['a', 'b', 'c', '-']), 30..=60);
        let small = {
            let mut p = ReParams::basic(&ABC);
            p.size = 5;
            gen::re_strategy(&p)
        };
        for i in 0..tier.pick(12, 60) {
            let w: String = sample(&letters, r).into_iter().collect();
            let other = gen::fix_nullable(sample(&small, r), 'a');
            let mut rules = vec![(Re::Str(w.clone()), None), (other, None), (plus(Re::Set(vec![oracle::re::SetItem::R('a', 'c')])), None), (Re::Char('-'), None)];
            if i % 2 == 0 {
                // a second long literal sharing a long prefix with the first
                let mut w2: String = w.chars().take(w.chars().count() - 3).collect();
                w2.push_str("cab");
                rules.insert(1, (cat(Re::Str(w2), Re::Char('!')), None));
            }
            out.push(("long-literals", crate::props2::simple_spec(rules, i % 3 == 0, vec![])));
        }
        // many rules: 60-300 keywords over a small alphabet (many of them prefixes of each other)
        // plus an identifier rule and a separator — hundreds of states and actions
        let kw = proptest::collection::vec(proptest::sample::select(vec!['a', 'b', 'c']), 1..=7);
        for i in 0..tier.pick(6, 30) {
            let n = [60usize, 100, 150, 300][i % 4];
            let mut seen = std::collections::BTreeSet::new();
            let mut rules = vec![];
            while rules.len() < n {
                let w: String = sample(&kw, r).into_iter().collect();
                if seen.insert(w.clone()) {
                    rules.push((Re::Str(w), None));
                }
            }
            rules.push((plus(Re::Set(vec![oracle::re::SetItem::R('a', 'c')])), None));
            rules.push((Re::Char(' '), None));
            out.push(("many-rules", crate::props2::simple_spec(rules, i % 2 == 0, vec![])));
        }
        // two alternatives of one rule that end in the same tail, each tail state reached from
        // two places, and another rule that accepts on the way to only one of them: states that
        // look alike but differ in whether a shorter match is pending
        let letter = proptest::sample::select(vec!['a', 'b', 'c', 'd', 'e', 'f']);
        for i in 0..tier.pick(60, 300) {
            let mut l = |r: &mut TestRunner| Re::Char(sample(&letter, r));
            let h1 = oracle::re::alt(l(r), l(r));
            let mid = l(r);
            let h2 = oracle::re::alt(oracle::re::cat(l(r), l(r)), oracle::re::cat(l(r), l(r)));
            let tail = if i % 3 == 0 { oracle::re::cat(l(r), l(r)) } else { l(r) };
            let a1 = oracle::re::cat(oracle::re::cat(h1.clone(), mid), tail.clone());
            let a2 = oracle::re::cat(h2.clone(), tail);
            let big = if i % 2 == 0 { oracle::re::alt(a1, a2) } else { oracle::re::alt(a2, a1) };
            // the short rule: the first character of one of the heads
            let short = match (&h1, &h2) {
                (Re::Alt(x, _), Re::Alt(y, _)) => {
                    if i % 4 < 2 {
                        (**x).clone()
                    } else {
                        match &**y {
                            Re::Cat(c, _) => (**c).clone(),
                            other => other.clone(),
                        }
                    }
                }
                _ => Re::Char('a'),
            };
            let mut rules = if i % 8 < 4 { vec![(short, None), (big, None)] } else { vec![(big, None), (short, None)] };
            if i % 5 == 0 {
                rules.push((Re::Char(' '), None));
            }
            out.push(("join-tails", crate::props2::simple_spec(rules, i % 2 == 1, vec![])));
        }
        // many search tables in one lexer: 12-24 rules `'<letter>' C_j+` with pairwise different
        // table-sized classes (16-24 pieces each), so that a dozen generated lookup tables and
        // helpers coexist
        let tapes = gen::tape_strategy(80);
        for i in 0..tier.pick(4, 16) {
            let k = [12usize, 17, 24][i % 3];
            let mut rules = vec![];
            for j in 0..k {
                let set = gen::many_piece_set(&sample(&tapes, r), 16 + (i + j) % 9);
                rules.push((oracle::re::cat(Re::Char((b'a' + j as u8) as char), plus(set)), None));
            }
            rules.push((Re::Char(' '), None));
            out.push(("many-tables", crate::props2::simple_spec(rules, i % 2 == 1, vec![])));
        }
        out.extend(deep_rewind_specs(r, tier.pick(6, 18)));
        // about 2^16 tokens between a remembered shorter match and a failure that has nothing
        // to rewind to (counters of the runtime that wrap after 65 536 events)
        for i in 0..4 {
            let set = |a: char, b: char| Re::Set(vec![oracle::re::SetItem::C(a), oracle::re::SetItem::C(b)]);
            let rules = vec![
                (Re::Char('a'), None),
                (oracle::re::cat(oracle::re::cat(set('a', 'x'), Re::Char('b')), Re::Char('c')), None),
                (Re::Char('y'), None),
            ];
            let mut s = crate::props2::simple_spec(rules, i % 2 == 1, vec![]);
            if i >= 2 {
                for rule in s.rules_mut() {
                    rule.kind = Kind::Ret;
                }
            }
            out.push(("token-wrap", s));
        }
        out
    }
    fn adjust_spec(&self, mut spec: Spec, r: &mut TestRunner) -> Spec {
        // several rules matching the same lexemes (with different contexts): ties and fall-through
        let t = sample(&gen::tape_strategy(12), r);
        if t.first().map(|x| x % 3 == 0).unwrap_or(false) {
            gen::duplicate_rules(&mut spec, t.get(1..).unwrap_or(&[]));
        } else if t.first().map(|x| x % 3 == 1).unwrap_or(false) {
            // keywords: a longer keyword first, a general rule, a shorter keyword that is a
            // prefix of the first one (ties with the general rule must go to the general rule)
            gen::keyword_prefixes(&mut spec, t.get(1..).unwrap_or(&[]), &ABC);
        } else if t.first().map(|x| x % 2 == 0).unwrap_or(false) {
            // one rule of the form `p1 T | p2 T` (alternatives sharing a tail)
            gen::shared_tails(&mut spec, t.get(1..).unwrap_or(&[]), &['a', 'b', 'c', 'd', 'e', 'f', 'x', 'y']);
        }
        spec
    }
    fn cases(&self, ctx: &SpecCtx, c: &mut Compiled, r: &mut TestRunner, tier: Tier) -> Vec<Case> {
        let mut cs = cases_from(
            ctx,
            r,
            &Plan {
                exhaustive_cap: tier.pick(4000, 20000),
                guided: tier.pick(300, 1500),
                wild: 50,
                scripts: false,
                script_len: 0,
                scripts_per_input: 1,
            },
        );
        cs.extend(long_cases(ctx, c, r, 2, 400, 400_000));
        if ctx.profile == "deep-rewind" {
            cs.extend(deep_rewind_cases(ctx));
        }
        if ctx.profile == "token-wrap" {
            for n in [65_534usize, 65_535, 65_536, 65_537, 131_071, 131_072] {
                for (head, tail) in [("abc", "xbd"), ("a", "xbda"), ("abcabc", "xb")] {
                    let mut s = String::from(head);
                    s.extend(std::iter::repeat('y').take(n));
                    s.push_str(tail);
                    cs.push(gen::simple_case(s, vec![]));
                }
            }
        }
        if ctx.idx % 4 == 0 {
            // a single attempt that reads more than 65 536 characters and is rewound
            cs.extend(deep_cases(ctx, c, r, 2, 600_000));
        }
        cs
    }
    fn judge(&self, _ctx: &SpecCtx, _v: &[Case], models: &[ModelOut], gots: &[Outcome]) -> Verdict {
        let (model, t) = match one(models, gots) {
            Ok(x) => x,
            Err(v) => return v,
        };
        match compare_runs(&model.trace.a, &t.a, &Facet::TOKENS) {
            Err(e) => Verdict::Bad(e),
            Ok(()) => Verdict::Ok {
                nontrivial: model.facts.rewinds > 0 || model.facts.ties > 0,
            },
        }
    }
    fn rule(&self) -> String {
        "definitions: random rule sets over {a,b,c} with shared prefixes, loops and right contexts; inputs: all strings over the definition's class alphabet up to the length that keeps the count under the cap, plus lexemes sampled from the rules with mutations, plus unstructured strings. A case is (definition, input). Non-trivial = the reference had to look beyond the end of the match it chose (a rewind was required) or two rules tied on the longest match; distinct = distinct (definition, input).".into()
    }
    fn min_nontrivial(&self, _tier: Tier) -> usize {
        200
    }
}

// ---------------------------------------------------------------------------------------------
// C03

pub struct C03;

/// Invariant over the produced trace alone (no reference positions involved): replaying the
/// observed actions and their decisions, every rule that ran belongs to the rule set that is
/// active by the documented rules — Init at the start, changed only by a switch decision or reset
/// to Init by an InvalidToken.
fn set_discipline(ctx: &SpecCtx, case: &Case, run: &proto::Run) -> Result<(), String> {
    use oracle::spec::Kind;
    let mut set_of = std::collections::HashMap::new();
    let mut kind_of = std::collections::HashMap::new();
    for (si, s) in ctx.flat.sets.iter().enumerate() {
        for r in &s.rules {
            set_of.insert(r.id, si);
            kind_of.insert(r.id, r.kind.clone());
        }
    }
    let n_sets = ctx.flat.sets.len() as u32;
    let named = ctx.flat.named;
    let mut active = 0usize;
    let mut script_pos = 0usize;
    let mut li = 0usize;
    let check = |rule: u32, active: usize, what: &str| -> Result<(), String> {
        match set_of.get(&rule) {
            Some(s) if *s == active => Ok(()),
            Some(s) => Err(format!(
                "{}: rule {} of rule set {} ran while rule set {} is the active one (no switch or failure explains the change)",
                what, rule, ctx.flat.sets[*s].name, ctx.flat.sets[active].name
            )),
            None => Err(format!("{}: unknown rule id {}", what, rule)),
        }
    };
    for i in 0..=run.items.len() {
        while li < run.log.len() && run.log[li].item_idx as usize <= i {
            let e = &run.log[li];
            li += 1;
            if e.rule & proto::POST_RESET != 0 {
                continue;
            }
            check(e.rule, active, &format!("action {}", li - 1))?;
            let sw = match kind_of.get(&e.rule) {
                Some(Kind::Sw(k)) | Some(Kind::SwRet(k)) => Some(*k),
                Some(k @ Kind::Script) | Some(k @ Kind::FScript) => {
                    let d = case.script.get(script_pos).copied().unwrap_or(Dec::Ret);
                    script_pos += 1;
                    match d {
                        Dec::Switch(j) | Dec::SwitchRet(j) | Dec::ResetSwitch(j) if named => Some(j),
                        // switch_and_return(set, Err(..)) in a `=?` rule
                        Dec::Err(x) if named && x >> 24 != 0 && matches!(k, Kind::FScript) => Some((x >> 24) - 1),
                        _ => None,
                    }
                }
                _ => None,
            };
            if let Some(j) = sw {
                active = (j % n_sets) as usize;
            }
        }
        if let Some(it) = run.items.get(i) {
            match it {
                proto::Item::Tok { tok, .. } => {
                    if matches!(kind_of.get(tok), Some(Kind::Simple)) {
                        check(*tok, active, &format!("token {}", i))?;
                    }
                }
                proto::Item::Invalid { .. } => active = 0,
                proto::Item::Custom { .. } => {}
            }
        }
    }
    Ok(())
}

impl Prop for C03 {
    fn id(&self) -> &'static str {
        "C03"
    }
    fn profiles(&self, tier: Tier) -> Vec<(Profile, usize)> {
        let mut lit = p_sets();
        lit.name = "sets-literal";
        lit.re.w_str = 10;
        lit.re.w_char = 10;
        lit.re.size = 3;
        lit.re.depth = 2;
        vec![(p_sets(), tier.pick(200, 2500)), (lit, tier.pick(120, 1500)), (p_sink(), tier.pick(60, 800))]
    }
    fn custom_specs(&self, tier: Tier, r: &mut TestRunner) -> Vec<(&'static str, Spec)> {
        // many rule sets (12-60): a ring ("x" advances and returns) with jumps ("y" switches to
        // set 7k+3), every set with its own token ids; a few sets get an extra literal rule so
        // that the sets do not all compile to the same shape
        let mut out = vec![];
        let pick = proptest::sample::select(vec!["b", "ab", "xa", "yy", "ax"]);
        for i in 0..tier.pick(4, 16) {
            let n = [12u32, 20, 33, 60][i % 4];
            let mut items = vec![];
            for k in 0..n {
                let mut rules = vec![
                    Rule { re: Re::Str("x".into()), ctx: None, kind: Kind::SwRet((k + 1) % n) },
                    Rule { re: Re::Str("y".into()), ctx: None, kind: Kind::Sw((k * 7 + 3) % n) },
                    Rule { re: plus(Re::Char('a')), ctx: None, kind: Kind::Simple },
                    Rule { re: Re::Char(' '), ctx: None, kind: Kind::Skip },
                ];
                if k % 3 == 1 {
                    rules.insert(
                        (k as usize) % 4,
                        Rule { re: Re::Str(sample(&pick, r).to_string()), ctx: None, kind: Kind::Ret },
                    );
                }
                items.push(Top::RuleSet {
                    name: if k == 0 { "Init".into() } else { format!("S{}", k) },
                    items: rules.into_iter().map(Inner::Rule).collect(),
                });
            }
            out.push((
                "many-sets",
                Spec { extra_attrs: vec![], vis: "pub".into(), items, paren: oracle::spec::ParenStyle::Full, stateless: false },
            ));
        }
        out
    }
    fn cases(&self, ctx: &SpecCtx, _c: &mut Compiled, r: &mut TestRunner, tier: Tier) -> Vec<Case> {
        let mut cs = cases_from(ctx, r, &std_plan(tier, true));
        if ctx.flat.sets.len() > 10 {
            let walk = proptest::collection::vec(proptest::sample::select(vec!["x", "y", "y", "a", "aa", " ", "b", "ab"]), 20..150);
            for _ in 0..tier.pick(300, 1500) {
                cs.push(gen::simple_case(sample(&walk, r).concat(), vec![]));
            }
        }
        cs
    }
    fn judge(&self, ctx: &SpecCtx, v: &[Case], models: &[ModelOut], gots: &[Outcome]) -> Verdict {
        let (model, t) = match one(models, gots) {
            Ok(x) => x,
            Err(v) => return v,
        };
        if let Err(e) = set_discipline(ctx, &v[0], &t.a) {
            return Verdict::Bad(e);
        }
        match compare_runs(&model.trace.a, &t.a, &Facet::TOKENS) {
            Err(e) => Verdict::Bad(e),
            Ok(()) => Verdict::Ok {
                nontrivial: model.facts.distinct_nonzero_sets >= 2 && model.facts.tokens_after_last_switch >= 1,
            },
        }
    }
    fn rule(&self) -> String {
        "definitions: 2-6 rule sets (empty ones allowed) in random order after Init, rules with global ids so that a wrong entry state cannot hide, a varying number of literal-only rules (terminal states removed by simplification) and chains (inlined states) in front of every entry state; switches come from fixed switch rules and from scripted decisions. Cases = (definition, input, decision script). Compared: items and the logged (rule id, span) sequence up to the first InvalidToken. Non-trivial = at least two distinct non-Init rule sets were entered and at least one token was produced after the last switch.".into()
    }
    fn min_nontrivial(&self, _tier: Tier) -> usize {
        100
    }
}

// ---------------------------------------------------------------------------------------------
// C04

pub struct C04;

impl Prop for C04 {
    fn id(&self) -> &'static str {
        "C04"
    }
    fn profiles(&self, tier: Tier) -> Vec<(Profile, usize)> {
        let mut big = p_ctx();
        big.name = "ctx-classes";
        big.re.w_set = 8;
        big.re.w_any = 3;
        big.re.chars = ABCDE.to_vec();
        let mut multi = p_ctx();
        multi.name = "ctx-sets";
        multi.sets = (2, 3);
        multi.rules = (1, 3);
        multi.unnamed_pct = 0;
        multi.kinds.swret = 3;
        multi.kinds.sw = 2;
        multi.ctx_pct = 75;
        vec![(p_ctx(), tier.pick(220, 3000)), (big, tier.pick(80, 1200)), (multi, tier.pick(120, 1500))]
    }
    fn adjust_spec(&self, mut spec: Spec, r: &mut TestRunner) -> Spec {
        let t = sample(&gen::tape_strategy(60), r);
        let sel = t.first().copied().unwrap_or(0);
        if sel % 2 == 0 {
            // the same lexeme under different contexts at different priorities
            gen::duplicate_rules(&mut spec, t.get(1..).unwrap_or(&[]));
        }
        if sel % 5 == 1 {
            // `X` and `X | $` as contexts of two rules of one lexer
            gen::ctx_eoi_twin(&mut spec, t.get(1..).unwrap_or(&[]));
        }
        if sel % 3 == 0 {
            // contexts (and rules) written with top-level and rule-set-local variables; the same
            // local name is bound differently in different rule sets
            gen::factor_lets(&mut spec, t.get(1..).unwrap_or(&[]), 35);
        } else if sel % 3 == 1 && spec.named() {
            // every context is a rule-set-local variable c0, c1, …
            gen::local_ctx_lets(&mut spec);
        }
        if sel % 7 == 3 {
            // a delimiter list: ten or more individually listed characters (or end of input)
            let many = gen::many_char_set(t.get(1..).unwrap_or(&[]), 10 + (sel as usize / 7) % 6);
            for rule in spec.rules_mut() {
                if rule.ctx.is_some() {
                    rule.ctx = Some(if sel % 2 == 0 { many.clone() } else { oracle::re::alt(many.clone(), oracle::re::Re::Eoi) });
                    break;
                }
            }
        }
        spec
    }
    fn custom_specs(&self, tier: Tier, r: &mut TestRunner) -> Vec<(&'static str, Spec)> {
        // large contexts (hundreds of automaton states): one long string, or a list of 60-150
        // keywords followed by a terminator; the same lexeme without context as the fallback
        use oracle::re::{alt, cat};
        let mut out = vec![];
        let letters = proptest::sample::select(vec!['a', 'b', 'c', 'd']);
        for i in 0..tier.pick(6, 24) {
            let ctx_re = if i % 2 == 0 {
                let n = [260usize, 300, 520][(i / 2) % 3];
                let w: String = (0..n).map(|_| sample(&letters, r)).collect();
                Re::Str(w)
            } else {
                let n = [60usize, 100, 150][(i / 2) % 3];
                let kw = proptest::collection::vec(letters.clone(), 3..=8);
                let mut seen = std::collections::BTreeSet::new();
                let mut a: Option<Re> = None;
                while seen.len() < n {
                    let w: String = sample(&kw, r).into_iter().collect();
                    if seen.insert(w.clone()) {
                        a = Some(match a {
                            None => Re::Str(w),
                            Some(x) => alt(x, Re::Str(w)),
                        });
                    }
                }
                cat(a.unwrap(), Re::Char(';'))
            };
            let rules = vec![
                (Re::Char('&'), Some(ctx_re)),
                (Re::Char('&'), None),
                (plus(Re::Set(vec![oracle::re::SetItem::R('a', 'd')])), None),
                (Re::Char(';'), None),
            ];
            out.push(("big-ctx", crate::props2::simple_spec(rules, i % 3 == 0, vec![])));
        }
        // contexts whose automaton is exponentially larger than the regex (`_* ';' _ … _`)
        for k in tier.pick(9usize..=9, 9usize..=10) {
            let mut c = cat(oracle::re::star(Re::Any), Re::Char(';'));
            for _ in 0..k {
                c = cat(c, Re::Set(vec![oracle::re::SetItem::R('a', 'd'), oracle::re::SetItem::C(';')]));
            }
            let rules = vec![
                (Re::Char('&'), Some(c)),
                (Re::Char('&'), None),
                (plus(Re::Set(vec![oracle::re::SetItem::R('a', 'd')])), None),
                (Re::Char(';'), None),
            ];
            out.push(("exp-ctx", crate::props2::simple_spec(rules, k % 2 == 0, vec![])));
        }
        // rules that END in a class (accepting transitions on range pieces), 2-4 of them with
        // overlapping classes, some with right contexts: the pieces of the common refinement
        // carry different lists of candidate rules, one list often a prefix of another
        let bound = proptest::sample::select(('a'..='p').collect::<Vec<char>>());
        for i in 0..tier.pick(60, 400) {
            let n = 2 + i % 3;
            let mut rules = vec![];
            for j in 0..n {
                let (x, y) = (sample(&bound, r), sample(&bound, r));
                let (lo, hi) = (x.min(y), x.max(y));
                let mut class = Re::Set(vec![oracle::re::SetItem::R(lo, hi)]);
                if (i + j) % 4 == 3 {
                    class = Re::Set(vec![oracle::re::SetItem::R(lo, hi), oracle::re::SetItem::R('s', 'v')]);
                }
                let re = match (i / 3 + j) % 3 {
                    0 => class,
                    1 => cat(Re::Char('x'), class),
                    _ => cat(oracle::re::opt(Re::Char('x')), class),
                };
                let ctx_re = match (i + 2 * j) % 5 {
                    0 | 1 => Some(Re::Char('!')),
                    2 => Some(Re::Set(vec![oracle::re::SetItem::R('a', 'h')])),
                    _ => None,
                };
                rules.push((re, ctx_re));
            }
            rules.push((Re::Char('!'), None));
            out.push(("class-accept-lists", crate::props2::simple_spec(rules, i % 2 == 0, vec![])));
        }
        out
    }
    fn cases(&self, ctx: &SpecCtx, c: &mut Compiled, r: &mut TestRunner, tier: Tier) -> Vec<Case> {
        let mut cs = cases_from(ctx, r, &std_plan(tier, false));
        cs.extend(long_cases(ctx, c, r, 2, 300, 300_000));
        if ctx.profile == "big-ctx" {
            // the context satisfied exactly, cut short at every length class, and with one
            // character changed at a random position (early, late, last)
            let tapes = gen::tape_strategy(400);
            if let Some(cr) = ctx.flat.sets[0].rules[0].ctx.clone() {
                for _ in 0..tier.pick(60, 300) {
                    let t = sample(&tapes, r);
                    let mut tp = gen::Tape::new(&t);
                    let mut w = String::new();
                    gen::sample_re(&cr, &mut tp, &mut w, 0);
                    let chars: Vec<char> = w.chars().collect();
                    let mut variants = vec![w.clone()];
                    if !chars.is_empty() {
                        let k = tp.next(chars.len() as u32) as usize;
                        variants.push(chars[..k].iter().collect());
                        let mut m = chars.clone();
                        let pos = match tp.next(3) {
                            0 => chars.len() - 1,
                            1 => chars.len() - 1 - (tp.next(8) as usize).min(chars.len() - 1),
                            _ => k,
                        };
                        m[pos] = if m[pos] == 'a' { 'b' } else { 'a' };
                        variants.push(m.into_iter().collect());
                    }
                    for v in variants {
                        cs.push(gen::simple_case(format!("&{};&", v), vec![]));
                    }
                }
            }
        }
        cs
    }
    fn judge(&self, _ctx: &SpecCtx, _v: &[Case], models: &[ModelOut], gots: &[Outcome]) -> Verdict {
        let (model, t) = match one(models, gots) {
            Ok(x) => x,
            Err(v) => return v,
        };
        match compare_runs(&model.trace.a, &t.a, &Facet::TOKENS) {
            Err(e) => Verdict::Bad(e),
            Ok(()) => Verdict::Ok {
                nontrivial: model.facts.ctx_rejected > 0,
            },
        }
    }
    fn unusable_is_violation(&self, spec: &Spec) -> bool {
        has_ctx(spec)
    }
    fn rule(&self) -> String {
        "definitions: 60% of the rules carry a right context drawn from the full regex grammar (strings, sets, repetition, alternation, nullable contexts, `$` in tail position), mixed with context-free rules over the same lexemes; inputs as for C01. Compared: tokens with byte spans (a consumed context would move them) and the action log, up to the first InvalidToken. A context-bearing definition that does not expand or compile is a violation (\"any regex may serve as a context\"). Non-trivial = the reference discarded at least one candidate (rule, end) because its context failed.".into()
    }
    fn min_nontrivial(&self, _tier: Tier) -> usize {
        200
    }
}

// ---------------------------------------------------------------------------------------------
// C05

pub struct C05;

impl Prop for C05 {
    fn id(&self) -> &'static str {
        "C05"
    }
    fn fuzz_facet(&self) -> Option<&'static str> {
        Some("C05")
    }
    fn profiles(&self, tier: Tier) -> Vec<(Profile, usize)> {
        vec![(p_eoi(), tier.pick(300, 3500)), (p_sink(), tier.pick(60, 800))]
    }
    fn adjust_spec(&self, mut spec: Spec, r: &mut TestRunner) -> Spec {
        // a third of the definitions name their `$`-bearing tails with a top-level variable
        let t = sample(&gen::tape_strategy(12), r);
        if t.first().map(|x| x % 3 == 0).unwrap_or(false) {
            gen::eoi_via_var(&mut spec, t.get(1..).unwrap_or(&[]));
        }
        spec
    }
    fn cases(&self, ctx: &SpecCtx, _c: &mut Compiled, r: &mut TestRunner, tier: Tier) -> Vec<Case> {
        // every prefix of the guided inputs: the input ends at every possible point
        let mut plan = std_plan(tier, true);
        plan.guided = tier.pick(60, 300);
        plan.wild = 10;
        let base = cases_from(ctx, r, &plan);
        let mut out = Vec::with_capacity(base.len() * 2);
        let mut seen = std::collections::HashSet::new();
        for c in base {
            let chars: Vec<char> = c.input.chars().collect();
            if chars.len() <= 6 {
                // bounded-exhaustive inputs already contain all their prefixes
                if seen.insert((c.input.clone(), c.script.clone())) {
                    out.push(c);
                }
                continue;
            }
            for k in 0..=chars.len() {
                let mut p = c.clone();
                p.input = chars[..k].iter().collect();
                p.extra_nexts = 3;
                if seen.insert((p.input.clone(), p.script.clone())) {
                    out.push(p);
                }
            }
        }
        out
    }
    fn judge(&self, _ctx: &SpecCtx, _v: &[Case], models: &[ModelOut], gots: &[Outcome]) -> Verdict {
        let (model, t) = match one(models, gots) {
            Ok(x) => x,
            Err(v) => return v,
        };
        if t.a.after_none > 0 {
            return Verdict::Bad(format!(
                "stream is not fused: {} item(s) were produced after next() had returned None",
                t.a.after_none
            ));
        }
        // The whole stream is compared when the first failure involves end-of-input (the error of
        // a non-Init rule set at a lexeme boundary, or a lexeme cut short by the end of the
        // input): nothing may follow it. Otherwise up to the first failure.
        let whole = first_invalid_is_final_eoi(model) || model.facts.first_invalid_at_eoi;
        let facet = Facet {
            upto_first_invalid: !whole,
            ..Facet::TOKENS
        };
        match compare_runs(&model.trace.a, &t.a, &facet) {
            Err(e) => Verdict::Bad(e),
            Ok(()) => Verdict::Ok {
                nontrivial: model.facts.rewind_at_eoi > 0
                    || model.facts.ended_in_non_init
                    || model.facts.eoi_matches > 0,
            },
        }
    }
    fn rule(&self) -> String {
        "definitions: 1-3 rule sets, 40% of the rules end in `$` (`re $`, `re $?`, `re (x | $)`, bare `$`), in Init and elsewhere, all action kinds; inputs: every prefix of every generated input (so the input ends inside a lexeme, right after a match, right after a rewind, in every rule set), 3 extra next() calls after the first None. Compared: the whole stream when the only InvalidToken of the reference is the end-of-input error, otherwise up to the first InvalidToken; plus: nothing is produced after None. Non-trivial = the input ended during a rewind, or in a non-Init rule set, or a rule matched through `$`.".into()
    }
    fn min_nontrivial(&self, _tier: Tier) -> usize {
        200
    }
}

// ---------------------------------------------------------------------------------------------
// C06

pub struct C06;

fn special(c: char) -> bool {
    c == '\n' || c == '\t' || !c.is_ascii()
}

/// Validity predicates on the produced trace that do not depend on the reference lexer.
fn span_predicates(input: &str, t: &proto::Run, check_text: bool) -> Result<(), String> {
    let chars: Vec<char> = input.chars().collect();
    let locs = oracle::model::loc_table(&chars);
    let mut by_byte = std::collections::HashMap::new();
    for l in &locs {
        by_byte.insert(l.byte, *l);
    }
    let check = |l: proto::Loc, what: &str| -> Result<(), String> {
        match by_byte.get(&l.byte) {
            None => Err(format!("{}: byte index {} is not on a character boundary", what, l.byte)),
            Some(e) if *e != l => Err(format!(
                "{}: location {}:{}@{} but scanning the input from its start gives {}:{}@{}",
                what, l.line, l.col, l.byte, e.line, e.col, e.byte
            )),
            _ => Ok(()),
        }
    };
    let mut last_end = 0u32;
    for (k, it) in t.items.iter().enumerate() {
        match it {
            proto::Item::Tok { start, end, .. } => {
                check(*start, &format!("token {} start", k))?;
                check(*end, &format!("token {} end", k))?;
                if start.byte > end.byte {
                    return Err(format!("token {}: start {} > end {}", k, start.byte, end.byte));
                }
                if start.byte < last_end {
                    return Err(format!(
                        "token {} starts at byte {} before the end {} of an earlier lexeme",
                        k, start.byte, last_end
                    ));
                }
                last_end = end.byte;
            }
            proto::Item::Invalid { loc } | proto::Item::Custom { loc, .. } => {
                check(*loc, &format!("error {} location", k))?;
            }
        }
    }
    for (k, e) in t.log.iter().enumerate() {
        check(e.start, &format!("match_loc().0 in action {}", k))?;
        check(e.end, &format!("match_loc().1 in action {}", k))?;
        if e.start.byte > e.end.byte {
            return Err(format!("action {}: match start {} > end {}", k, e.start.byte, e.end.byte));
        }
        if check_text {
            if let Some(txt) = &e.text {
                let slice = &input[e.start.byte as usize..e.end.byte as usize];
                if slice != txt {
                    return Err(format!(
                        "action {}: match_() = {:?} but input[{}..{}] = {:?}",
                        k, txt, e.start.byte, e.end.byte, slice
                    ));
                }
            }
        }
    }
    Ok(())
}

impl Prop for C06 {
    fn id(&self) -> &'static str {
        "C06"
    }
    fn fuzz_facet(&self) -> Option<&'static str> {
        Some("C06")
    }
    fn profiles(&self, tier: Tier) -> Vec<(Profile, usize)> {
        let mut rw = p_unicode();
        rw.name = "unicode-rewind";
        rw.kinds = KindMix::tokens_only();
        rw.kinds.cont = 2;
        rw.kinds.skip = 1;
        rw.sets = (1, 1);
        vec![(p_unicode(), tier.pick(200, 2500)), (rw, tier.pick(150, 2000)), (p_sink(), tier.pick(60, 800))]
    }
    fn custom_specs(&self, _tier: Tier, _r: &mut TestRunner) -> Vec<(&'static str, Spec)> {
        // `_` alone / `_+` with a newline rule: driven with every scalar value (see cases)
        let not_sep = oracle::re::diff(Re::Any, Re::Set(vec![oracle::re::SetItem::C(' '), oracle::re::SetItem::C('\n')]));
        let mut logged = crate::props2::simple_spec(vec![(plus(not_sep.clone()), None), (Re::Char(' '), None), (Re::Char('\n'), None)], true, vec![]);
        for rule in logged.rules_mut() {
            rule.kind = Kind::Ret;
        }
        vec![
            ("clusters", crate::props2::simple_spec(vec![(plus(not_sep), None), (Re::Char(' '), None), (Re::Char('\n'), None)], false, vec![])),
            ("clusters", logged),
            ("all-scalars", crate::props2::simple_spec(vec![(Re::Any, None)], false, vec![])),
            (
                "all-scalars",
                crate::props2::simple_spec(
                    vec![(Re::Char('\n'), None), (plus(oracle::re::diff(Re::Any, Re::Char('\n'))), None)],
                    true,
                    vec![],
                ),
            ),
        ]
    }
    fn cases(&self, ctx: &SpecCtx, _c: &mut Compiled, r: &mut TestRunner, tier: Tier) -> Vec<Case> {
        if ctx.profile == "clusters" {
            // character sequences whose display width as a STRING differs from the sum of the
            // widths of their characters (ligatures, emoji modifiers and ZWJ sequences, variation
            // selectors, flags, combining marks) inside one lexeme and across lexemes
            let pieces = vec![
                "\u{644}\u{627}", "\u{1F44D}\u{1F3FD}", "\u{263A}\u{FE0F}", "#\u{FE0F}\u{20E3}", "\u{1F468}\u{200D}\u{1F469}\u{200D}\u{1F467}",
                "\u{A4F8}\u{A4F9}", "e\u{301}", "\u{1F1E9}\u{1F1EA}", "ab", "\u{4EAC}", "\t", "\u{17D8}", "\u{AD}", "\u{1160}", "x",
            ];
            let seps = vec!["", "", " ", "\n"];
            let strat = proptest::collection::vec((proptest::sample::select(pieces), proptest::sample::select(seps)), 1..14);
            let mut cs = vec![];
            for _ in 0..tier.pick(400, 2000) {
                let s: String = sample(&strat, r).into_iter().map(|(a, b)| format!("{}{}", a, b)).collect();
                cs.push(gen::simple_case(s, vec![]));
            }
            let ctors = gen::ctor_strategy();
            for c in cs.iter_mut().step_by(3) {
                c.ctor = sample(&ctors, r);
            }
            return cs;
        }
        if ctx.profile == "all-scalars" {
            // every scalar value once (control characters are replaced below), a newline every
            // 997 characters, in chunks of 65 536 characters
            let mut cs = vec![];
            let mut s = String::new();
            let mut n = 0u32;
            for v in 0..=0x10FFFFu32 {
                if let Some(ch) = char::from_u32(v) {
                    s.push(if ch.is_control() { 'x' } else { ch });
                    n += 1;
                    if n % 997 == 0 {
                        s.push('\n');
                    }
                    if n % 65_536 == 0 {
                        cs.push(gen::simple_case(std::mem::take(&mut s), vec![]));
                    }
                }
            }
            cs.push(gen::simple_case(s, vec![]));
            return cs;
        }
        let mut cs = cases_from(ctx, r, &std_plan(tier, true));
        cs.extend(long_cases(ctx, _c, r, 2, 500, 500_000));
        if ctx.idx % 8 == 0 {
            // byte offsets beyond 65 536
            cs.extend(long_cases(ctx, _c, r, 1, 30_000, 3_000_000));
        }
        // column of control characters other than newline/tab is not defined by the documentation
        for c in cs.iter_mut() {
            if c.input.chars().any(|ch| ch.is_control() && ch != '\n' && ch != '\t') {
                c.input = c
                    .input
                    .chars()
                    .map(|ch| if ch.is_control() && ch != '\n' && ch != '\t' { 'x' } else { ch })
                    .collect();
            }
        }
        cs
    }
    fn judge(&self, _ctx: &SpecCtx, v: &[Case], models: &[ModelOut], gots: &[Outcome]) -> Verdict {
        let (model, t) = match one(models, gots) {
            Ok(x) => x,
            Err(v) => return v,
        };
        if let Err(e) = span_predicates(&v[0].input, &t.a, true) {
            return Verdict::Bad(e);
        }
        let facet = Facet {
            locs: true,
            log: true,
            log_text_peek: true,
            upto_first_invalid: true,
            after_first_invalid: false,
            err_locs: true,
        };
        match compare_runs(&model.trace.a, &t.a, &facet) {
            Err(e) => Verdict::Bad(e),
            Ok(()) => Verdict::Ok {
                nontrivial: v[0].input.chars().any(special)
                    && (model.facts.rewinds > 0 || model.facts.continues > 0),
            },
        }
    }
    fn rule(&self) -> String {
        "definitions over the alphabet {a, b, c, newline, tab, é (2 bytes), € (3), 京 (wide), 💝 (4 bytes, wide), U+0301 (zero width)} in literals, sets, ranges and `_`, with rewinding rule sets emphasised; inputs as for C01 plus scripts. Checked on every token, every logged match_loc()/match_() and every error: (a) reference-independent predicates over the whole trace — byte indices on character boundaries, start <= end, input[start..end] == match_(), lexemes ordered and disjoint, line/column equal to a rescan from byte 0 (newline, tab = 4, display width otherwise); (b) equality with the reference including full locations up to the first InvalidToken. Control characters other than newline/tab are replaced in inputs (their width is not documented). Non-trivial = the input contains a newline, tab or non-ASCII character and the case needed a rewind or accumulated a match with continue_.".into()
    }
    fn min_nontrivial(&self, _tier: Tier) -> usize {
        200
    }
}

// ---------------------------------------------------------------------------------------------
// C07

pub struct C07;

impl Prop for C07 {
    fn id(&self) -> &'static str {
        "C07"
    }
    fn fuzz_facet(&self) -> Option<&'static str> {
        Some("C07")
    }
    fn profiles(&self, tier: Tier) -> Vec<(Profile, usize)> {
        let mut f = p_actions();
        f.name = "fallible";
        f.kinds.fscript = 6;
        f.kinds.ferr = 3;
        f.kinds.cont = 4;
        let mut c = p_ctx();
        c.name = "ctx-fallible";
        c.kinds = KindMix::mixed();
        c.kinds.ferr = 2;
        let mut d = p_actions();
        d.name = "fallible-classes";
        d.re.w_diff = 4;
        d.re.w_any = 3;
        d.re.w_set = 5;
        d.kinds.fscript = 4;
        vec![(f, tier.pick(200, 2500)), (c, tier.pick(80, 1200)), (d, tier.pick(60, 800)), (p_sink(), tier.pick(60, 800)), (p_real(), tier.pick(60, 800))]
    }
    fn cases(&self, ctx: &SpecCtx, c: &mut Compiled, r: &mut TestRunner, tier: Tier) -> Vec<Case> {
        let mut cs = cases_from(ctx, r, &std_plan(tier, true));
        cs.extend(long_cases(ctx, c, r, 2, 400, 400_000));
        cs
    }
    fn judge(&self, _ctx: &SpecCtx, _v: &[Case], models: &[ModelOut], gots: &[Outcome]) -> Verdict {
        let (model, t) = match one(models, gots) {
            Ok(x) => x,
            Err(v) => return v,
        };
        let facet = Facet {
            err_locs: true,
            ..Facet::TOKENS
        };
        match compare_runs(&model.trace.a, &t.a, &facet) {
            Err(e) => Verdict::Bad(e),
            Ok(()) => Verdict::Ok {
                nontrivial: (model.facts.invalid > 0 || model.facts.custom > 0)
                    && (model.facts.error_loc_differs > 0 || model.facts.custom > 0),
            },
        }
    }
    fn rule(&self) -> String {
        "definitions with fallible (`=?`) rules whose scripted decision may be Err(nonce), mixed with continue_/reset/switch rules and right contexts; inputs as for C01 with failures at the first character, in the middle of a lexeme, at end of input and after accumulated continue_ matches. Compared up to and including the first InvalidToken: item kinds (an error where the reference has a token and vice versa is a mismatch), Custom payloads (nonce and rule), and the byte location of every error, which must be the start of the current match. Non-trivial = an error occurred whose location differs from the position of the offending character, or a Custom error occurred.".into()
    }
    fn min_nontrivial(&self, _tier: Tier) -> usize {
        200
    }
}

// ---------------------------------------------------------------------------------------------
// C08

pub struct C08;

impl Prop for C08 {
    fn id(&self) -> &'static str {
        "C08"
    }
    fn profiles(&self, tier: Tier) -> Vec<(Profile, usize)> {
        let mut p = p_sets();
        p.name = "sets-recovery";
        p.kinds.sw = 4;
        p.kinds.swret = 3;
        p.kinds.script = 3;
        p.rules = (1, 4);
        p.allow_empty_sets = false;
        vec![(p, tier.pick(320, 3500)), (p_sink(), tier.pick(60, 800))]
    }
    fn cases(&self, ctx: &SpecCtx, _c: &mut Compiled, r: &mut TestRunner, tier: Tier) -> Vec<Case> {
        let mut plan = std_plan(tier, true);
        plan.guided = tier.pick(600, 3000);
        let mut cs = cases_from(ctx, r, &plan);
        cs.extend(long_cases(ctx, _c, r, 2, 400, 400_000));
        cs
    }
    fn judge(&self, _ctx: &SpecCtx, _v: &[Case], models: &[ModelOut], gots: &[Outcome]) -> Verdict {
        let (model, t) = match one(models, gots) {
            Ok(x) => x,
            Err(v) => return v,
        };
        if model.facts.invalid == 0 {
            return Verdict::Ok { nontrivial: false };
        }
        if !prefix_agrees(&model.trace.a, &t.a) {
            // what happens up to the first failure belongs to C01/C03/C07
            return Verdict::Skip;
        }
        let facet = Facet {
            locs: false,
            log: true,
            log_text_peek: false,
            upto_first_invalid: false,
            after_first_invalid: true,
            err_locs: true,
        };
        match compare_runs(&model.trace.a, &t.a, &facet) {
            Err(e) => Verdict::Bad(format!("after the first InvalidToken: {}", e)),
            Ok(()) => Verdict::Ok {
                nontrivial: model.facts.invalid_in_non_init > 0 && model.facts.tokens_after_invalid >= 2,
            },
        }
    }
    fn rule(&self) -> String {
        "definitions with 2-6 non-empty rule sets and many switching rules; inputs: lexemes of the rules with foreign characters injected (1-3 unlexable stretches) and all short strings over the class alphabet, with decision scripts (switches before the failure, returns/continues after it). Compared: everything AFTER the first InvalidToken — items with byte spans (they expose the resume position), error locations, and the logged rule ids (they expose the active rule set) — against the reference continuation from (position after the examined characters, Init, empty match); cases whose prefix up to the first failure already differs are skipped and counted. The user state (script position, log) is compared through the log. Non-trivial = a failure happened in a non-Init rule set and at least two tokens were produced after a failure.".into()
    }
    fn min_nontrivial(&self, _tier: Tier) -> usize {
        100
    }
}

// ---------------------------------------------------------------------------------------------
// C09

pub struct C09;

impl Prop for C09 {
    fn id(&self) -> &'static str {
        "C09"
    }
    fn fuzz_facet(&self) -> Option<&'static str> {
        Some("C09")
    }
    fn profiles(&self, tier: Tier) -> Vec<(Profile, usize)> {
        let n = tier.pick(80, 800);
        vec![
            (p_rewind(), n),
            (p_sets(), n),
            (p_ctx(), n),
            (p_eoi(), n),
            (p_unicode(), n),
            (p_actions(), n),
            (p_sink(), n),
            (p_real(), n),
        ]
    }
    fn custom_specs(&self, tier: Tier, r: &mut TestRunner) -> Vec<(&'static str, Spec)> {
        deep_rewind_specs(r, tier.pick(9, 27))
    }
    fn cases(&self, ctx: &SpecCtx, _c: &mut Compiled, r: &mut TestRunner, tier: Tier) -> Vec<Case> {
        let mut plan = std_plan(tier, true);
        plan.exhaustive_cap = tier.pick(400, 3000);
        plan.guided = tier.pick(150, 600);
        plan.wild = tier.pick(150, 600);
        let mut cs = cases_from(ctx, r, &plan);
        if ctx.profile == "deep-rewind" {
            cs.extend(deep_rewind_cases(ctx));
        }
        // all constructors
        let ctors = gen::ctor_strategy();
        for c in cs.iter_mut() {
            c.ctor = sample(&ctors, r);
        }
        // long inputs: one repeated character, only-foreign, long guided
        let mut pool: Vec<char> = ctx.reps.clone();
        pool.extend(ctx.foreign.iter().take(2));
        if pool.is_empty() {
            pool.push('a');
        }
        // Maximal munch with rewinding is quadratic in the worst case, and cubic when a right
        // context has to scan ahead at every accepting position; the long inputs are sized so
        // that even those worst cases stay far below the watchdog (which must only fire for
        // genuine non-termination).
        if ctx.idx % 3 == 0 {
            cs.extend(deep_cases(ctx, _c, r, 1, 600_000));
        }
        let with_ctx = ctx.flat.sets.iter().any(|s| s.rules.iter().any(|r| r.ctx.is_some()));
        let (long, medium) = if with_ctx { (300, 150) } else { (3_000, 1_200) };
        let n_long = tier.pick(4, 12);
        for k in 0..n_long {
            let ch = pool[k % pool.len()];
            let len = if k % 3 == 0 { long } else { medium };
            let s: String = if k % 2 == 0 {
                std::iter::repeat(ch).take(len).collect()
            } else {
                (0..len).map(|i| pool[(i * 7 + k) % pool.len()]).collect()
            };
            let script = sample(&gen::script_strategy(ctx.flat.sets.len() as u32, ctx.flat.fallible, 30), r);
            cs.push(gen::simple_case(s, script));
        }
        if let Some(f) = ctx.foreign.first() {
            cs.push(gen::simple_case(std::iter::repeat(*f).take(if with_ctx { 300 } else { 2000 }).collect(), vec![]));
        }
        cs
    }
    fn judge(&self, _ctx: &SpecCtx, v: &[Case], models: &[ModelOut], gots: &[Outcome]) -> Verdict {
        let (model, t) = match one(models, gots) {
            Ok(x) => x,
            Err(v) => return v,
        };
        let n = v[0].input.chars().count();
        if t.a.items.len() > n + 1 {
            return Verdict::Bad(format!("{} items for {} characters (bound is n+1)", t.a.items.len(), n));
        }
        let n_actions = t.a.log.iter().filter(|e| e.rule & proto::POST_RESET == 0).count();
        if n_actions > n + 1 {
            return Verdict::Bad(format!("{} action invocations for {} characters (bound is n+1)", n_actions, n));
        }
        // progress (reference-free): every item accounts for at least one character or for the
        // single end-of-input event — token ends strictly increase and consecutive errors are
        // located strictly further, except for items that sit at the very end of the input
        let n_bytes = v[0].input.len() as u32;
        let marker = |i: &proto::Item| match i {
            proto::Item::Tok { end, .. } => end.byte,
            proto::Item::Invalid { loc } | proto::Item::Custom { loc, .. } => loc.byte,
        };
        for w in t.a.items.windows(2) {
            let (a, b) = (&w[0], &w[1]);
            let stalled = match b {
                proto::Item::Tok { end, .. } => end.byte <= marker(a) && end.byte != n_bytes,
                _ => !matches!(a, proto::Item::Tok { .. }) && marker(b) <= marker(a) && marker(b) != n_bytes,
            };
            if stalled {
                return Verdict::Bad(format!(
                    "no progress between consecutive items {} and {}",
                    fmt_item(a),
                    fmt_item(b)
                ));
            }
        }
        Verdict::Ok {
            nontrivial: (n >= 8 && model.facts.invalid > 0 && model.facts.continues > 0) || n >= 300,
        }
    }
    fn rule(&self) -> String {
        "definitions of every profile (rewinding, rule sets, right contexts, `$`, Unicode classes, all action kinds); inputs: short exhaustive strings, sampled lexemes with mutations, arbitrary scalar values, the empty input, a single repeated character, only-unlexable characters, and inputs of 1,200-3,000 characters (150-300 for definitions with right contexts, whose worst case is cubic); all six constructor variants. No reference is needed: the lexer must not panic, abort or hang (20 s watchdog per case, action budget n+2 enforced inside the actions), must yield at most n+1 items and run at most n+1 logged actions, and must make progress between consecutive items (token ends strictly increase, consecutive errors are located strictly further, except at the very end of the input). Non-trivial = (n >= 8 with at least one error and one continue_) or n >= 300.".into()
    }
    fn min_nontrivial(&self, _tier: Tier) -> usize {
        200
    }
}

// ---------------------------------------------------------------------------------------------
// C10

pub struct C10;

impl Prop for C10 {
    fn id(&self) -> &'static str {
        "C10"
    }
    fn fuzz_facet(&self) -> Option<&'static str> {
        Some("C10")
    }
    fn profiles(&self, tier: Tier) -> Vec<(Profile, usize)> {
        let mut acc = p_actions();
        acc.name = "actions-accumulate";
        acc.kinds.cont = 6;
        acc.kinds.skip = 3;
        acc.kinds.rcont = 3;
        acc.sets = (1, 2);
        vec![(p_actions(), tier.pick(200, 2500)), (acc, tier.pick(140, 1500)), (p_sink(), tier.pick(60, 800)), (p_real(), tier.pick(60, 800))]
    }
    fn cases(&self, ctx: &SpecCtx, c: &mut Compiled, r: &mut TestRunner, tier: Tier) -> Vec<Case> {
        let mut cs = cases_from(ctx, r, &std_plan(tier, true));
        // long runs of continue_ / many actions per input
        cs.extend(long_cases(ctx, c, r, 2, 600, 600_000));
        cs
    }
    fn judge(&self, _ctx: &SpecCtx, _v: &[Case], models: &[ModelOut], gots: &[Outcome]) -> Verdict {
        let (model, t) = match one(models, gots) {
            Ok(x) => x,
            Err(v) => return v,
        };
        let facet = Facet {
            log_text_peek: true,
            ..Facet::TOKENS
        };
        match compare_runs(&model.trace.a, &t.a, &facet) {
            Err(e) => Verdict::Bad(e),
            Ok(()) => Verdict::Ok {
                nontrivial: model.facts.rewinds > 0 && model.facts.continues > 0 && model.facts.resets > 0,
            },
        }
    }
    fn rule(&self) -> String {
        "definitions assigning every action kind (`re,` / `re = t` / return / continue with and without reset / switch / switch-and-return / fallible ok, err / scripted) to 2-6 rules; the sugar forms and their explicit spellings (`=> reset_match(); continue_()`, `=> return_(t)`) both occur and are both compared with the same reference, so they are interchangeable by transitivity. Every action body first appends (rule id, match_loc(), match_(), peek()) to a log in the user state. Compared up to the first InvalidToken: the log (hence: exactly one invocation per selected match, in order, none for abandoned candidates; match_ covers the text since the last reset; peek is the first unconsumed character) and the tokens with accumulated spans. Non-trivial = the case contains an abandoned longer candidate (rewind), an accumulating continue_ and a reset.".into()
    }
    fn min_nontrivial(&self, _tier: Tier) -> usize {
        200
    }
}

// ---------------------------------------------------------------------------------------------
// C14

pub struct C14;

fn strip_text(r: &proto::Run) -> proto::Run {
    let mut r = r.clone();
    for e in r.log.iter_mut() {
        e.text = None;
    }
    r
}

impl Prop for C14 {
    fn id(&self) -> &'static str {
        "C14"
    }
    fn profiles(&self, tier: Tier) -> Vec<(Profile, usize)> {
        vec![(p_unicode(), tier.pick(160, 2000)), (p_actions(), tier.pick(120, 1500)), (p_sink(), tier.pick(60, 800))]
    }
    fn cases(&self, ctx: &SpecCtx, _c: &mut Compiled, r: &mut TestRunner, tier: Tier) -> Vec<Case> {
        let mut plan = std_plan(tier, true);
        plan.exhaustive_cap = tier.pick(500, 3000);
        plan.scripts_per_input = 1;
        let mut cs = cases_from(ctx, r, &plan);
        // longer than any plausible internal buffer of the iterator-based constructors
        cs.extend(long_cases(ctx, _c, r, 2, 1500, 1_500_000));
        cs
    }
    fn variants(&self, base: &Case) -> Vec<Case> {
        Ctor::ALL
            .iter()
            .map(|c| {
                let mut v = base.clone();
                v.ctor = *c;
                v
            })
            .collect()
    }
    fn judge(&self, _ctx: &SpecCtx, v: &[Case], models: &[ModelOut], gots: &[Outcome]) -> Verdict {
        let mut runs = vec![];
        for g in gots {
            match basic_health(g) {
                Ok(t) => runs.push(strip_text(&t.a)),
                Err(e) => return Verdict::Bad(e),
            }
        }
        for k in 1..runs.len() {
            if runs[k] != runs[0] {
                return Verdict::Bad(format!(
                    "constructor {:?} and {:?} disagree: {} vs {}",
                    v[0].ctor,
                    v[k].ctor,
                    crate::pipe::trunc(&fmt_run(&runs[0]), 400),
                    crate::pipe::trunc(&fmt_run(&runs[k]), 400)
                ));
            }
        }
        Verdict::Ok {
            nontrivial: models[0].facts.rewinds > 0 && v[0].input.chars().any(|c| !c.is_ascii()),
        }
    }
    fn rule(&self) -> String {
        "every generated (definition, input, script) is run through new, new_with_state, new_from_iter and new_from_iter_with_state, the iterator constructors with three iterator types (vec::IntoIter<char>, str::Chars, a hand-written cloneable counter iterator); `new`/`new_from_iter` receive the same user state through the state's Default impl. The six traces (tokens, full locations, errors, action logs with match_loc and peek; match_() removed) must be pairwise identical. Non-trivial = the case needed a rewind (the iterator was re-seated) and the input contains a multi-byte character.".into()
    }
    fn min_nontrivial(&self, _tier: Tier) -> usize {
        200
    }
}

// ---------------------------------------------------------------------------------------------
// C15

pub struct C15;

impl Prop for C15 {
    fn id(&self) -> &'static str {
        "C15"
    }
    fn profiles(&self, tier: Tier) -> Vec<(Profile, usize)> {
        vec![(p_actions(), tier.pick(160, 2000)), (p_eoi(), tier.pick(120, 1500))]
    }
    fn custom_specs(&self, tier: Tier, _r: &mut TestRunner) -> Vec<(&'static str, Spec)> {
        // several table-sized classes in one lexer: generated lookup helpers and tables are shared
        // by all instances of the lexer type, so hidden state there would couple clones and runs
        use oracle::re::{cat, plus, star, Re};
        let names = ["XID_Start", "XID_Continue", "numeric", "lowercase", "uppercase", "alphabetic"];
        let mut out = vec![];
        let n = tier.pick(10, 30);
        for i in 0..n {
            let a = names[i % names.len()];
            let b = names[(i / 2 + 1) % names.len()];
            let c = names[(i + 3) % names.len()];
            if a == b || b == c {
                continue;
            }
            let bi = |n: &str| Re::Builtin(n.to_string());
            let rules = vec![
                (cat(bi(a), star(bi(b))), None),
                (plus(bi(c)), if i % 3 == 0 { Some(bi(b)) } else { None }),
                (plus(Re::Set(vec![oracle::re::SetItem::C(' '), oracle::re::SetItem::C('\n')])), None),
            ];
            let mut s = crate::props2::simple_spec(rules, i % 2 == 0, vec![]);
            // log the actions of the first rule so that match_loc()/peek() are compared too
            if let Some(r0) = s.rules_mut().into_iter().next() {
                r0.kind = oracle::spec::Kind::Ret;
            }
            out.push(("tables", s));
        }
        out
    }
    fn cases(&self, ctx: &SpecCtx, comp: &mut Compiled, r: &mut TestRunner, tier: Tier) -> Vec<Case> {
        use proptest::prelude::*;
        let mut plan = std_plan(tier, true);
        plan.exhaustive_cap = tier.pick(300, 2000);
        plan.scripts_per_input = 1;
        let mut cs = cases_from(ctx, r, &plan);
        let any64 = any::<u64>();
        let ctors = gen::ctor_strategy();
        for (i, c) in cs.iter_mut().enumerate() {
            let n_items = oracle::model::run_model(comp, c).trace.a.items.len() as u32;
            // clone points: uniformly inside the stream, and forced at 0, right after the last
            // item and after the final None for a fixed share of the cases
            let k = match i % 8 {
                0 => 0,
                1 => n_items,
                2 => n_items + 1,
                _ => {
                    let x = sample(&any64, r);
                    (x % (n_items as u64 + 2)) as u32
                }
            };
            c.clone_at = Some(k);
            c.sched = sample(&any64, r);
            c.extra_nexts = 2;
            if i % 3 == 0 {
                c.ctor = sample(&ctors, r);
            }
        }
        cs
    }
    fn variants(&self, base: &Case) -> Vec<Case> {
        let mut plain = base.clone();
        plain.clone_at = None;
        plain.sched = 0;
        vec![base.clone(), plain.clone(), plain]
    }
    fn judge(&self, _ctx: &SpecCtx, v: &[Case], models: &[ModelOut], gots: &[Outcome]) -> Verdict {
        let mut ts = vec![];
        for g in gots {
            match basic_health(g) {
                Ok(t) => ts.push(t),
                Err(e) => return Verdict::Bad(e),
            }
        }
        let (with_clone, plain, again) = (ts[0], ts[1], ts[2]);
        if plain.a != again.a {
            return Verdict::Bad(format!(
                "running the same lexer twice on the same input gives different results: {} vs {}",
                crate::pipe::trunc(&fmt_run(&plain.a), 400),
                crate::pipe::trunc(&fmt_run(&again.a), 400)
            ));
        }
        if with_clone.a != plain.a {
            return Verdict::Bad(format!(
                "the original is affected by its clone: uninterrupted {} vs original-with-clone {}",
                crate::pipe::trunc(&fmt_run(&plain.a), 400),
                crate::pipe::trunc(&fmt_run(&with_clone.a), 400)
            ));
        }
        let k = (v[0].clone_at.unwrap_or(0) as usize).min(plain.a.items.len());
        let b = match &with_clone.b {
            Some(b) => b,
            None if v[0].clone_at.is_none() => return Verdict::Ok { nontrivial: false },
            None => return Verdict::Bad("no clone run in the trace".into()),
        };
        if b.items[..] != plain.a.items[k..] || b.log != plain.a.log || b.after_none != 0 {
            return Verdict::Bad(format!(
                "the clone taken after {} items does not continue like the original: expected items {:?} got {}",
                k,
                plain.a.items[k..].iter().map(fmt_item).collect::<Vec<_>>(),
                crate::pipe::trunc(&fmt_run(b), 500)
            ));
        }
        let n_items = plain.a.items.len();
        Verdict::Ok {
            nontrivial: k > 0 && k < n_items && (models[0].facts.continues > 0 || models[0].facts.switches > 0),
        }
    }
    fn rule(&self) -> String {
        "definitions with `#[derive(Clone)]` and a cloneable user state holding the action log by value; case = (input, script, clone point k in 0..=items+1, 64-bit interleaving schedule, constructor); k = 0, k = number of items and k after the final None are forced for 3/8 of the cases. Three executions per case: with the clone (original and clone advanced in the order given by the schedule, each with 2 extra next() calls after None), uninterrupted, and uninterrupted again. Required: original-with-clone == uninterrupted (items, logs), clone's items == uninterrupted items from k on, clone's log == uninterrupted log, nothing after None, and the two uninterrupted runs are equal. No reference lexer is involved. Non-trivial = k strictly inside the stream and the case contains a continue_ or a switch (pending accumulated match or non-Init rule set at some clone points).".into()
    }
    fn min_nontrivial(&self, _tier: Tier) -> usize {
        100
    }
}

pub fn all_props() -> Vec<Box<dyn Prop>> {
    vec![
        Box::new(C01),
        Box::new(C03),
        Box::new(C04),
        Box::new(C05),
        Box::new(C06),
        Box::new(C07),
        Box::new(C08),
        Box::new(C09),
        Box::new(C10),
        Box::new(C14),
        Box::new(C15),
        Box::new(crate::props2::C02),
        Box::new(crate::props2::C11b),
        Box::new(crate::props2::C13),
        Box::new(crate::engb::C16e),
    ]
}

#[allow(dead_code)]
fn _unused(_: Dec) {}
