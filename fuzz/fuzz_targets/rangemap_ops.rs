//! Engine D / C11(a): coverage-guided operation sequences on lexgen's RangeMap against the
//! point-wise model. The oracle is inside the target: a mismatch or a broken invariant panics.
#![no_main]
#![allow(dead_code)]

use libfuzzer_sys::fuzz_target;
use std::collections::BTreeSet;

#[path = "/repo/crates/lexgen/src/range_map.rs"]
#[allow(clippy::all)]
mod range_map;
use range_map::{Range, RangeMap};

type Val = BTreeSet<u8>;

#[derive(Clone, Debug)]
enum Op {
    Insert(u32, u32, u8),
    InsertRanges(Vec<(u32, u32, u8)>),
    Remove(Vec<(u32, u32)>),
}

const U: u32 = 23; // small universe: every point is checked after every operation

fn decode(data: &[u8]) -> Vec<Op> {
    let mut ops = vec![];
    let mut i = 0;
    let next = |i: &mut usize| -> Option<u8> {
        let b = data.get(*i).copied();
        *i += 1;
        b
    };
    while ops.len() < 16 {
        let tag = match next(&mut i) {
            Some(t) => t,
            None => break,
        };
        match tag % 3 {
            0 => {
                let (a, b, v) = match (next(&mut i), next(&mut i), next(&mut i)) {
                    (Some(a), Some(b), Some(v)) => (a as u32 % (U + 1), b as u32 % (U + 1), v % 4),
                    _ => break,
                };
                ops.push(Op::Insert(a.min(b), a.max(b), v));
            }
            k => {
                // sorted disjoint list of up to 4 ranges
                let n = match next(&mut i) {
                    Some(n) => 1 + n as usize % 4,
                    None => break,
                };
                let mut pts = vec![];
                for _ in 0..2 * n {
                    match next(&mut i) {
                        Some(p) => pts.push(p as u32 % (U + 1)),
                        None => break,
                    }
                }
                pts.sort();
                let mut l: Vec<(u32, u32)> = vec![];
                for c in pts.chunks(2) {
                    if c.len() == 2 && l.last().map(|x| x.1 < c[0]).unwrap_or(true) {
                        l.push((c[0], c[1]));
                    }
                }
                if l.is_empty() {
                    continue;
                }
                if k == 1 {
                    ops.push(Op::Remove(l));
                } else {
                    let v = next(&mut i).unwrap_or(0) % 4;
                    ops.push(Op::InsertRanges(l.into_iter().enumerate().map(|(j, (a, b))| (a, b, (v + j as u8) % 4)).collect()));
                }
            }
        }
    }
    ops
}

fn model_at(ops: &[Op], x: u32) -> Option<Val> {
    let mut cur: Option<Val> = None;
    for op in ops {
        match op {
            Op::Insert(a, b, v) => {
                if *a <= x && x <= *b {
                    cur.get_or_insert_with(Val::new).insert(*v);
                }
            }
            Op::InsertRanges(l) => {
                for (a, b, v) in l {
                    if *a <= x && x <= *b {
                        cur.get_or_insert_with(Val::new).insert(*v);
                    }
                }
            }
            Op::Remove(l) => {
                if l.iter().any(|(a, b)| *a <= x && x <= *b) {
                    cur = None;
                }
            }
        }
    }
    cur
}

fuzz_target!(|data: &[u8]| {
    let ops = decode(data);
    let mut map: RangeMap<Val> = RangeMap::new();
    for (k, op) in ops.iter().enumerate() {
        match op {
            Op::Insert(a, b, v) => {
                let mut s = Val::new();
                s.insert(*v);
                map.insert(*a, *b, s, |x, y| x.extend(y));
            }
            Op::InsertRanges(l) => {
                let rs: Vec<Range<Val>> = l
                    .iter()
                    .map(|(a, b, v)| {
                        let mut s = Val::new();
                        s.insert(*v);
                        Range { start: *a, end: *b, value: s }
                    })
                    .collect();
                map.insert_ranges(RangeMap::from_non_overlapping_sorted_ranges(rs).into_iter(), |x, y| x.extend(y));
            }
            Op::Remove(l) => {
                let rs: Vec<Range<()>> = l.iter().map(|(a, b)| Range { start: *a, end: *b, value: () }).collect();
                map.remove_ranges(&RangeMap::from_non_overlapping_sorted_ranges(rs));
            }
        }
        let got: Vec<(u32, u32, Val)> = map.iter().map(|r| (r.start, r.end, r.value.clone())).collect();
        for (i, (s, e, v)) in got.iter().enumerate() {
            assert!(s <= e, "VERIF-C11 inverted piece after op {} of {:?}", k, ops);
            assert!(!v.is_empty(), "VERIF-C11 empty value after op {} of {:?}", k, ops);
            if i > 0 {
                assert!(got[i - 1].1 < *s, "VERIF-C11 overlapping/unsorted pieces after op {} of {:?}", k, ops);
            }
        }
        for x in 0..=U + 1 {
            let want = model_at(&ops[..=k], x);
            let have = got.iter().find(|(s, e, _)| *s <= x && x <= *e).map(|(_, _, v)| v.clone());
            assert!(want == have, "VERIF-C11 point {} differs from the model after op {} of {:?}: {:?} vs {:?}", x, k, ops, have, want);
        }
    }
});
