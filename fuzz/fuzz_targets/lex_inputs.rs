//! Engine D: coverage-guided inputs/scripts for a batch of generated lexers compiled into this
//! target, with the reference differential inside the target. Coverage feedback comes from the
//! generated state-machine arms, i.e. it rewards reaching new automaton states.
//! VERIF_FUZZ_FACET selects what is compared (default: everything).
#![no_main]
#![allow(warnings)]

use libfuzzer_sys::fuzz_target;
use oracle::cmp::{compare_runs, fmt_run, Facet};
use oracle::model::{run_model, Compiled};
use oracle::spec::Spec;
use std::cell::RefCell;

mod generated {
    include!("../generated/lexers.rs");
}

thread_local! {
    static MODELS: RefCell<Vec<Option<Compiled>>> = RefCell::new(Vec::new());
}

fn facet() -> (Facet, bool) {
    // (facet, bounds_only)
    let all = Facet { locs: true, log: true, log_text_peek: true, upto_first_invalid: false, after_first_invalid: false, err_locs: true };
    match std::env::var("VERIF_FUZZ_FACET").as_deref() {
        Ok("C09") => (all, true),
        Ok("C01") | Ok("C03") | Ok("C04") => (Facet::TOKENS, false),
        Ok("C05") => (Facet { upto_first_invalid: true, ..all }, false),
        Ok("C06") => (Facet { upto_first_invalid: true, ..all }, false),
        Ok("C07") => (Facet { err_locs: true, ..Facet::TOKENS }, false),
        Ok("C10") => (Facet { log_text_peek: true, ..Facet::TOKENS }, false),
        _ => (all, false),
    }
}

fuzz_target!(|data: &[u8]| {
    let n = generated::LEXERS.len();
    let (idx, case) = match oracle::fuzzfmt::decode(data, n) {
        Some(x) => x,
        None => return,
    };
    let (facet, bounds_only) = facet();
    let got = (generated::LEXERS[idx].1)(&case);
    if let Some(p) = &got.panic {
        panic!("VERIF-PANIC lexer {} input {:?} script {:?}: {}", idx, case.input, case.script, p);
    }
    let nchars = case.input.chars().count();
    if got.a.runaway || got.a.items.len() > nchars + 1 || got.a.log.iter().filter(|e| e.rule & proto::POST_RESET == 0).count() > nchars + 1 || got.a.after_none > 0 {
        panic!("VERIF-BOUNDS lexer {} input {:?} script {:?}: {}", idx, case.input, case.script, fmt_run(&got.a));
    }
    if bounds_only {
        return;
    }
    MODELS.with(|m| {
        let mut m = m.borrow_mut();
        if m.is_empty() {
            for _ in 0..n {
                m.push(None);
            }
        }
        if m[idx].is_none() {
            let spec: Spec = serde_json::from_str(generated::LEXERS[idx].0).expect("spec json");
            m[idx] = Some(Compiled::new(&spec.flatten().expect("flatten")));
        }
        let model = run_model(m[idx].as_mut().unwrap(), &case);
        if let Err(e) = compare_runs(&model.trace.a, &got.a, &facet) {
            panic!(
                "VERIF-MISMATCH lexer {} input {:?} script {:?}: {}\nexpected {}\ngot      {}",
                idx, case.input, case.script, e, fmt_run(&model.trace.a), fmt_run(&got.a)
            );
        }
    });
});
