// placeholder; rewritten by the orchestrator before every fuzzing stage
pub static LEXERS: &[(&str, rt::RunFn)] = &[];
