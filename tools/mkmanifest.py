#!/usr/bin/env python3
"""Regenerates /verif/MANIFEST.json from the table below (run after adding a check)."""
import json, sys

ENGINE_A = "Engine A: generated lexer definitions compiled by the real macro + rustc, run against an independent reference lexer"
CHECKS = {
    # id: (technique, level text, level note, design ref)
    "C01": ("proptest-generated definitions and inputs (bounded-exhaustive + reference-guided + random), differential against a derivative-based reference lexer",
            "Generated-input search: hundreds (quick) to thousands (thorough) of random rule sets, each run on all strings up to a length over its class alphabet plus sampled near-miss inputs; every (rule, lexeme) sequence is compared with a maximal-munch reference. Finds priority/rewind defects of density ~1 definition in 50 within seconds; gives no proof of absence.",
            "Trusted: rustc/cargo, proptest, the oracle crate (Brzozowski-derivative reference, cross-checked by a second reference). Definitions are well-formed by construction.",
            "DESIGN.md section 4, C01"),
}
NOT_YET = {}

def main():
    props = [json.loads(l) for l in open("/verif/properties.jsonl")]
    checks = []
    na = []
    for p in props:
        pid = p["id"]
        if pid in CHECKS:
            tech, text, note, ref = CHECKS[pid]
            checks.append({
                "property_id": pid,
                "quick_cmd": f"./check {pid} quick",
                "thorough_cmd": f"./check {pid} thorough",
                "evidence_file": f"/verif/evidence/{pid}.json",
                "replay_cmd_template": "./check replay {path}",
                "engine": "orch",
                "level_claimed": {"category": "exploration", "text": text, "design_ref": ref},
                "level_note": note,
                "technique": tech,
            })
        else:
            na.append({"property_id": pid, "reason": NOT_YET.get(pid, "check not built yet in this session (planned in DESIGN.md section 4); not claimed until it runs")})
    m = {
        "version": 1,
        "setup_cmd": "cd /verif && CARGO_NET_OFFLINE=true cargo build --release --quiet -p orch && cd /verif/rd && CARGO_NET_OFFLINE=true cargo build --release --quiet -p pipeline",
        "hooks": {
            "guard": "osa1_lexgen_verif",
            "enable": "no hooks are needed: the harnesses compile /repo's sources as they are (path dependencies, #[path] includes, and a build.rs that adapts a copy of lib.rs's three entry-point lines)",
            "baseline_off_cmd": "cd /repo && cargo test --workspace --no-fail-fast --offline",
            "source_commits": [],
            "add_only": True,
        },
        "engines": [
            {"name": "orch", "path": "/verif/crates/orch", "serves_properties": sorted(CHECKS), "kind_free_text": ENGINE_A + "; Engine B: the macro pipeline in-process; Engine C: direct module harnesses; all driven by proptest strategies seeded from VERIF_SEED"},
        ],
        "checks": checks,
        "not_applicable": na,
        "notes": "All checks: exit 0 = held on everything explored, exit 1 + VIOLATION line, exit 2 = infrastructure trouble (never a verdict). Known findings are listed in /verif/known_findings.json.",
    }
    json.dump(m, open("/verif/MANIFEST.json", "w"), indent=1)
    print("checks:", len(checks), "not_applicable:", len(na))

main()
