#!/usr/bin/env python3
"""Regenerates /verif/MANIFEST.json from the table below (run after adding a check)."""
import json, sys

ENGINE_A = "Engine A: generated lexer definitions compiled by the real macro + rustc, run against an independent reference lexer"
TRUST_A = "Trusted: rustc/cargo, proptest, unicode-width, and the oracle crate (Brzozowski-derivative reference lexer with virtual end-of-input symbol; every run cross-checks ~6000 of its own cases against a second, recursion-based reference and exits 2 on disagreement). Definitions are well-formed by construction (no nullable rule, no empty class, `$` only in tail position). Failures are shrunk (input, script, then the definition by batch recompilation) into a replay file. Thorough tier adds a coverage-guided libFuzzer stage where noted in DESIGN.md."
def A(tech, text, ref):
    return (tech, text, TRUST_A, ref)
DIFF = "proptest-generated lexer definitions compiled by the real macro, proptest-generated inputs/scripts (bounded-exhaustive + reference-guided + random), differential against an independent derivative-based reference lexer"
CHECKS = {
    "C01": A(DIFF,
        "Generated-input search: hundreds (quick) to thousands (thorough) of random rule sets, each run on all strings up to a length over its class alphabet plus sampled near-miss inputs; every (rule, lexeme) sequence is compared with a maximal-munch reference. Size families (60-300 rules, a dozen search tables, long literals, rewinds over 70,000 characters) and long inputs are part of every run. Finds priority/rewind defects of density ~1 definition in 50 within seconds; no proof of absence.",
        "DESIGN.md section 4, C01"),
    "C03": A(DIFF + "; plus a reference-free invariant over the observed action history (set discipline)",
        "Generated definitions with 2-6 rule sets and scripted switch/continue/return decisions; traces compared with the reference up to the first failure, and over the whole trace the invariant 'every rule that ran belongs to the set made active by the last switch or failure'. Exercises state renumbering after simplification/inlining at many offsets; no proof.",
        "DESIGN.md section 4, C03"),
    "C04": A(DIFF,
        "Generated right contexts of every regex shape at every priority position, mixed with context-free rules; tokens, byte spans and fall-through behaviour compared with the reference; contexts of up to 520 automaton states, twin contexts `X` / `X | $` and overlapping class-ending rules are generated deliberately; a context-bearing definition that fails to expand/compile is a violation.",
        "DESIGN.md section 4, C04"),
    "C05": A(DIFF + "; every prefix of every input",
        "Every generated input is cut at every position so that the input ends inside lexemes, after matches, after rewinds and in every rule set; `$` preference, Init/non-Init end-of-input behaviour and the fused stream are compared with a reference that treats end-of-input as a virtual symbol.",
        "DESIGN.md section 4, C05"),
    "C06": A(DIFF + "; plus reference-free validity predicates (char boundaries, slice == match_(), ordered disjoint lexemes, Loc == rescan from byte 0)",
        "Unicode alphabet (newline, tab, 2/3/4-byte, wide, zero-width) in definitions and inputs; every token, logged match_loc()/match_() and error location is checked by predicates that do not depend on the reference lexer and additionally compared with the reference; `_` is driven with every scalar value and with grapheme clusters whose string width differs from the sum of their character widths; some inputs exceed 65,536 bytes.",
        "DESIGN.md section 4, C06"),
    "C07": A(DIFF,
        "Fallible rules with scripted Err decisions; error kind, payload and byte location of every error up to the first InvalidToken compared with the reference; error-vs-token confusion is a mismatch.",
        "DESIGN.md section 4, C07"),
    "C08": A(DIFF + " restricted to what follows the first InvalidToken",
        "Multi-rule-set definitions with switches before failures and unlexable stretches in the inputs; everything after the first failure (spans expose the resume position, rule ids the active rule set) compared with the reference continuation from Init.",
        "DESIGN.md section 4, C08"),
    "C09": ("proptest-generated definitions of all profiles and inputs incl. arbitrary scalars, empty, repeated-character, unlexable-only and 10^4-character inputs through all constructors; oracle = bounds and absence of panic/hang (no reference)",
        "Robustness search: no panic/abort/hang (watchdog 20 s per case against microseconds of normal run time), items <= n+1, logged actions <= n+1 (budget enforced inside actions); includes single attempts that read 66,000-70,000 characters before they are rewound.",
        "Trusted: rustc/cargo, proptest. Non-termination can only be observed as a budget overrun (4 orders of magnitude of slack).",
        "DESIGN.md section 4, C09"),
    "C10": A(DIFF + " on the action log kept in the user state",
        "Every action kind assigned to rules, scripted decisions; the logged invocation sequence (rule, match_loc, match_(), peek) and token spans compared with the action-protocol model; sugar forms and their explicit spellings are compared with the same reference.",
        "DESIGN.md section 4, C10"),
    "C02": A(DIFF + "; bounded-exhaustive enumeration of small regex trees",
        "Every regex tree up to 4 (quick) / 5 (thorough) nodes over a 6-atom basis plus random larger trees (overlapping ranges, `_`, built-ins, `#`, variables) and the documented equivalent spellings, also 17-40-way alternations, consecutive listed characters, bridged ranges and 33-90-piece classes, printed in all three parenthesis styles; each on all 1,093 strings up to length 6 over {a,b,c}, sampled lexemes and every code point next to a class end point; membership of every string decided by the generated lexer is compared with the reference language.",
        "DESIGN.md section 4, C02"),
    "C11": A("model-based testing of RangeMap operation sequences (bounded-exhaustive + proptest random with shrinking) against a point-wise model; plus generated class expressions through the real macro, classified per code point against the oracle's interval algebra",
        "Part (a): every short operation sequence over a small universe and random long ones over the full scalar range, invariants and point-wise model equality after every operation. Part (b): random class expressions (sets, ranges, `_`, built-ins, `|`, chained `#`, variables, >9 pieces) in four compilation shapes, every boundary +-2 and random scalars classified.",
        "DESIGN.md section 4, C11"),
    "C13": A("exhaustive enumeration of all 1,112,064 scalar values through compiled lexers for every built-in name and membership-test shape; oracle = the Rust predicates",
        "All scalar values x 20 names x (accept arms, alone, loop: table or guard chain, right-context function) plus forced other-shape variants (PUA union / windows); exhaustive in the code-point dimension. Recorded Unicode-version drift of 7 tables is a known finding keyed on exact code-point ranges.",
        "DESIGN.md section 4, C13"),
    "C18": ("exhaustive enumeration of boundary predicates + proptest random predicates handed to the repository's own generator function; oracle = independent run-length encoding over all scalar values",
        "All 1,024 predicates defined by boundaries at 0, around the surrogate gap and at char::MAX, the 20 real predicates and random ones; output must be the unique maximal sorted range list with scalar end points.",
        "Trusted: proptest, Rust char predicates, unicode-xid; the generator source is include!d unchanged (minus its inner attribute).",
        "DESIGN.md section 4, C18"),
    "C12": ("proptest-generated definitions of every profile plus scaling families and multi-lexer modules, expanded in-process (repository's own pipeline) under a watchdog, three expansions compared; a sample compiled by rustc",
        "Every generated definition must expand within 20 s (confirmed alone with 40 s), without panic, and identically twice in one process and once in another; a sample and every module with several lexers must compile. Non-termination is a budget overrun (4 orders of magnitude slack).",
        "Trusted: proptest, rustc; the in-process harness is lexgen's source with three entry-point lines adapted. Known finding F8 (exponential inlining of mixed char+range class chains) is excluded by a generator cap and re-measured every run.",
        "DESIGN.md section 4, C12"),
    "C16": ("proptest-generated regex trees printed with minimal / redundant parentheses and factored into lets, round-tripped through the repository's parser in-process (structural equality); generated scoping accept/reject definitions; end-to-end differential sample through rustc",
        "Round trip printer -> lexgen parser on tens of thousands of trees per run; scoping decided by expansion acceptance; behaviour of minimally printed / let-factored definitions compared with the reference.",
        "Trusted: proptest, the printer's reading of the documented grammar (# tighter than postfix), the reference model for the end-to-end part.",
        "DESIGN.md section 4, C16"),
    "C17": ("mutation-based generation: a generated well-formed definition plus exactly one static-rule violation at a random position; oracle = in-process expansion must reject, a sample must fail to compile with rustc",
        "16 violation families at random positions of random definitions; any that yields lexer code is a violation. Lazy validation inside unreferenced lets is a known finding keyed on (kind, location).",
        "Trusted: proptest, rustc. Macro panics and compile_error! both count as rejection.",
        "DESIGN.md section 4, C17"),
    "C14": ("proptest-generated definitions/inputs/scripts; metamorphic: the same case through all four constructors and three iterator types must give pairwise identical traces",
        "Pairwise equality of the six constructor variants' traces (tokens, full Locs, errors, action logs without match_()); no reference lexer involved.",
        "Trusted: rustc/cargo, proptest; the user state's Default impl hands the same state to `new`/`new_from_iter`.",
        "DESIGN.md section 4, C14"),
    "C15": ("proptest-generated histories: (input, script, clone point, interleaving schedule); oracle = the uninterrupted run of the same lexer (self-consistency), plus run-twice determinism",
        "Clone at every kind of point (start, inside, after errors/switches, after the final None) with random interleavings of original and clone; both must reproduce the uninterrupted stream and log.",
        "Trusted: rustc/cargo, proptest. The user state is cloned by value.",
        "DESIGN.md section 4, C15"),
}
NOT_YET = {}

def main():
    props = [json.loads(l) for l in open("/verif/properties.jsonl")]
    checks = []
    na = []
    for p in props:
        pid = p["id"]
        if pid in CHECKS:
            tech, text, note, ref = CHECKS[pid]
            checks.append({
                "property_id": pid,
                "quick_cmd": f"./check {pid} quick",
                "thorough_cmd": f"./check {pid} thorough",
                "evidence_file": f"/verif/evidence/{pid}.json",
                "replay_cmd_template": "./check replay {path}",
                "engine": "orch",
                "level_claimed": {"category": "exploration", "text": text, "design_ref": ref},
                "level_note": note,
                "technique": tech,
            })
        else:
            na.append({"property_id": pid, "reason": NOT_YET.get(pid, "check not built yet in this session (planned in DESIGN.md section 4); not claimed until it runs")})
    m = {
        "version": 1,
        "setup_cmd": "cd /verif && CARGO_NET_OFFLINE=true cargo build --release --quiet -p orch && cd /verif/rd && CARGO_NET_OFFLINE=true cargo build --release --quiet -p pipeline",
        "hooks": {
            "guard": "osa1_lexgen_verif",
            "enable": "no hooks are needed: the harnesses compile /repo's sources as they are (path dependencies, #[path] includes, and a build.rs that adapts a copy of lib.rs's three entry-point lines)",
            "baseline_off_cmd": "cd /repo && cargo test --workspace --no-fail-fast --offline",
            "source_commits": [],
            "add_only": True,
        },
        "engines": [
            {"name": "orch", "path": "/verif/crates/orch", "serves_properties": sorted(CHECKS), "kind_free_text": ENGINE_A + "; Engine B: the macro pipeline in-process (rd/pipeline); Engine C: direct module harnesses (rd/enginec); Engine D: cargo-fuzz targets (fuzz/) used by thorough tiers; all generation by proptest strategies seeded from VERIF_SEED"},
        ],
        "checks": checks,
        "not_applicable": na,
        "notes": "All checks: exit 0 = held on everything explored, exit 1 + VIOLATION line, exit 2 = infrastructure trouble (never a verdict). Known findings are listed in /verif/known_findings.json.",
    }
    json.dump(m, open("/verif/MANIFEST.json", "w"), indent=1)
    print("checks:", len(checks), "not_applicable:", len(na))

main()
