#!/bin/sh
# tools/try_seed.sh <patch.diff> <ID> [<ID>...]  — applies the patch to /repo, runs the quick checks, undoes it.
P="$1"; shift
cd /repo || exit 2
if ! git diff --quiet; then echo "/repo has local changes; refusing"; exit 2; fi
git apply "$P" || { echo "patch does not apply"; exit 2; }
for id in "$@"; do
  ( cd /verif && timeout 1800 ./check "$id" ${TIER:-quick} > /tmp/try_seed_$id.log 2>&1; echo "$id exit=$? $(grep -c '^VIOLATION' /tmp/try_seed_$id.log) violation lines; $(grep -E '^VIOLATION|INFRA' /tmp/try_seed_$id.log | head -2 | tr '\n' ' ')"; grep -A1 '^VIOLATION' /tmp/try_seed_$id.log | sed -n 2p )
done
git -C /repo checkout -- .
