#!/usr/bin/env python3
"""harvest_corpus.py <log-prefix>: after tools/regress_seeds.sh, copies the first (shrunk) replay of every seeded
change that was caught by an Engine A check into /verif/corpus/<ID>/<seed>.json (the replay tier)."""
import json, os, re, sys
prefix = sys.argv[1] if len(sys.argv) > 1 else "/tmp/regress_"
n = 0
for d in sorted(os.listdir("/verif/seeded")):
    log = f"{prefix}{d}.log"
    if not os.path.exists(log):
        continue
    text = open(log, errors="replace").read()
    m = re.search(r"^VIOLATION property=(C\d\d) replay=(\S+)", text, re.M)
    if not m:
        continue
    pid, path = m.group(1), m.group(2)
    try:
        r = json.load(open(path))
    except Exception:
        continue
    if r.get("engine") != "A" or not r.get("case") or len(r["case"].get("input", "")) > 2000:
        continue
    out = {k: r[k] for k in ("property", "engine", "reason", "lexer_source", "spec", "case") if k in r}
    out["origin"] = f"shrunk failure found by ./check {pid} quick with seeded change {d} applied"
    os.makedirs(f"/verif/corpus/{pid}", exist_ok=True)
    json.dump(out, open(f"/verif/corpus/{pid}/{d}.json", "w"), indent=1, ensure_ascii=False)
    n += 1
print("harvested", n)
