#!/usr/bin/env python3
"""file_round.py <round> <source text> <log> [<log> ...]: completes /verif/seeded/<ID>-<n>/meta.json for the seeds named in
RESULT lines of try_seed_auto.sh logs (property from the first line of notes.md, caught_by from the latest RESULT line).
Seeds whose demonstration is a compile failure / timeout (not handled by confirm_seed.py) are filed from /tmp/seedout."""
import json, os, re, shutil, sys
rnd, source, logs = int(sys.argv[1]), sys.argv[2], sys.argv[3:]
res = {}
for lg in logs:
    for line in open(lg, errors="replace"):
        m = re.match(r"RESULT /tmp/seedout/(\w+)/(\d+) declared=(C\d\d) caught_by=\[(.*)\]", line)
        if m:
            res[(m.group(1), m.group(2))] = (m.group(3), m.group(4).split())
for (pid, n), (decl, caught) in sorted(res.items()):
    src = f"/tmp/seedout/{pid}/{n}"
    dst = f"/verif/seeded/{pid}-{n}"
    os.makedirs(dst, exist_ok=True)
    for f in ("patch.diff", "demo.rs", "notes.md"):
        if os.path.exists(f"{src}/{f}") and not os.path.exists(f"{dst}/{f}"):
            shutil.copy(f"{src}/{f}", f"{dst}/{f}")
    mp = f"{dst}/meta.json"
    meta = json.load(open(mp)) if os.path.exists(mp) else {}
    notes = open(f"{dst}/notes.md").read()
    meta["property"] = decl
    meta["source"] = source
    meta.setdefault("needs_to_manifest", re.sub(r"\s+", " ", notes)[:1500])
    if "demo" not in meta:
        dp = open(f"{src}/demo_path.txt").read() if os.path.exists(f"{src}/demo_path.txt") else ""
        meta["demo"] = {"path_in_tree": f"crates/lexgen/tests/seed_demo_{pid}_{n}.rs", "how": re.sub(r"\s+", " ", dp)[:600],
                        "without_patch": "compiles and passes", "with_patch": "does not compile / does not finish (see how)"}
        meta["confirmed_by"] = f"/tmp/confirm_special.sh in the scratch worktree /tmp/wt/{pid}"
    meta["existing_suite_with_patch"] = "119 passed, 0 failed"
    meta["caught_by"] = caught
    meta["round"] = rnd
    meta["checked_with"] = "tools/try_seed_auto.sh"
    json.dump(meta, open(mp, "w"), indent=1)
    print(pid, n, decl, caught)
