#!/usr/bin/env python3
"""confirm_seed.py <ID> <n> [caught-by ...]: re-verifies a sub-agent's seeded change in its scratch worktree
(demo passes without, patch compiles, 119 tests pass, demo fails with) and files it under /verif/seeded/."""
import json, os, re, shutil, subprocess, sys
pid, n = sys.argv[1], sys.argv[2]
caught = sys.argv[3:]
wt = f"/tmp/wt/{pid}"
src = f"/tmp/seedout/{pid}/{n}"
name = f"seed_demo_{pid}_{n}"
demo_rel = f"crates/lexgen/tests/{name}.rs"
def run(cmd, **kw):
    return subprocess.run(cmd, shell=True, cwd=wt, capture_output=True, text=True, **kw)
def tests_ok():
    r = run("cargo test --workspace --no-fail-fast --offline 2>&1 | grep -a -E '^test result' | awk '{p+=$4; f+=$6} END {print p, f}'")
    return r.stdout.strip()
run("git checkout -- .")
for f in os.listdir(f"{wt}/crates/lexgen/tests"):
    if f.startswith("seed_demo_"):
        os.remove(f"{wt}/crates/lexgen/tests/{f}")
shutil.copy(f"{src}/demo.rs", f"{wt}/{demo_rel}")
demo_cmd = f"cargo test -p lexgen --test {name} --offline"
r0 = run(demo_cmd + " 2>&1 | grep -a -E '^test result'")
without = r0.stdout.strip()
os.remove(f"{wt}/{demo_rel}")
a = run(f"git apply {src}/patch.diff")
if a.returncode != 0:
    print("PATCH DOES NOT APPLY", a.stderr); sys.exit(1)
suite = tests_ok()
shutil.copy(f"{src}/demo.rs", f"{wt}/{demo_rel}")
r1 = run(demo_cmd + " 2>&1 | grep -a -E '^test result'")
with_ = r1.stdout.strip()
os.remove(f"{wt}/{demo_rel}")
run("git checkout -- .")
ok = ("ok." in without and " 0 failed" in without) and suite == "119 0" and ("FAILED" in with_)
print(f"{pid}/{n}: demo without patch: {without!r}; suite with patch: {suite!r}; demo with patch: {with_!r}; confirmed={ok}")
if not ok:
    sys.exit(1)
dst = f"/verif/seeded/{pid}-{n}"
os.makedirs(dst, exist_ok=True)
shutil.copy(f"{src}/patch.diff", f"{dst}/patch.diff")
shutil.copy(f"{src}/demo.rs", f"{dst}/demo.rs")
notes = open(f"{src}/notes.md").read()
shutil.copy(f"{src}/notes.md", f"{dst}/notes.md")
meta = {
    "property": pid,
    "source": "independent sub-agent given only the property text and a scratch worktree",
    "needs_to_manifest": re.sub(r"\s+", " ", notes)[:1500],
    "demo": {"path_in_tree": demo_rel, "command": demo_cmd, "without_patch": without, "with_patch": with_},
    "existing_suite_with_patch": "119 passed, 0 failed",
    "confirmed_by": "tools/confirm_seed.py in the scratch worktree " + wt,
    "caught_by": caught,
}
json.dump(meta, open(f"{dst}/meta.json", "w"), indent=1)
