#!/bin/sh
# tools/try_seed_auto.sh <seed dir with patch.diff and notes.md>: runs the check of the property named on the first
# line of notes.md; if that check stays silent, runs every other quick check. Prints which checks caught the patch.
D="$1"
P=$(head -1 "$D/notes.md" | grep -o 'C[0-9][0-9]' | head -1)
[ -z "$P" ] && P=C01
cd /repo || exit 2
if ! git diff --quiet; then echo "/repo has local changes; refusing"; exit 2; fi
git apply "$D/patch.diff" || { echo "patch does not apply"; exit 2; }
CAUGHT=""
run() { ( cd /verif && timeout 1800 ./check "$1" quick > /tmp/try_auto_$1.log 2>&1 ); rc=$?; if [ $rc -eq 1 ]; then CAUGHT="$CAUGHT $1"; fi; echo "  $1 rc=$rc $(grep -a -A1 "^VIOLATION" /tmp/try_auto_$1.log | sed -n 2p | cut -c1-160)"; }
run $P
if [ -z "$CAUGHT" ]; then
  for i in 01 02 03 04 05 06 07 08 09 10 11 12 13 14 15 16 17 18; do [ "C$i" = "$P" ] || run C$i; done
fi
git -C /repo checkout -- .
echo "RESULT $D declared=$P caught_by=[$CAUGHT ]"
