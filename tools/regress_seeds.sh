#!/bin/sh
# tools/regress_seeds.sh [binary]: for every seeded change, applies it to /repo, runs the quick check named first in
# meta.json's caught_by (with the given orchestrator binary, default target/release/verif), undoes it, and
# reports whether it is still caught (by the generators alone: the replay tier is switched off unless VERIF_NO_CORPUS=0). /repo must be clean and must not be touched meanwhile.
BIN=${1:-/verif/target/release/verif}
cd /repo || exit 2
if ! git diff --quiet; then echo "/repo has local changes; refusing"; exit 2; fi
K=0
for d in /verif/seeded/*/; do
  n=$(basename $d)
  # REGRESS_STRIDE=s REGRESS_OFFSET=o: only every s-th seeded change, starting with the o-th
  K=$((K+1)); if [ $(( (K + ${REGRESS_OFFSET:-0}) % ${REGRESS_STRIDE:-1} )) -ne 0 ]; then continue; fi
  id=$(python3 -c "
import json,sys
m=json.load(open('$d/meta.json'))
c=m.get('caught_by')
print(c[0] if isinstance(c,list) and c else '')")
  [ -z "$id" ] && { echo "$n SKIP (no caught_by)"; continue; }
  if ! git apply "$d/patch.diff" 2>/dev/null; then
    # patches written against the tree before fix 11bb057 (F15): apply them on top of its reversal
    if git apply /verif/seeded/revert-F15/patch.diff 2>/dev/null && git apply "$d/patch.diff" 2>/dev/null; then
      n="$n(on pre-F15 tree)"
    else
      git checkout -- .; echo "$n PATCH-DOES-NOT-APPLY"; continue
    fi
  fi
  ( cd /verif && CARGO_NET_OFFLINE=true VERIF_NO_CORPUS=${VERIF_NO_CORPUS:-1} timeout 1800 $BIN $id quick > "/tmp/regress_$(basename $d).log" 2>&1 ); rc=$?
  git checkout -- .
  if [ $rc -eq 1 ]; then echo "$n caught by $id"; else echo "$n NOT CAUGHT by $id (rc=$rc)"; fi
done
