#!/bin/sh
# tools/run_all.sh [tier]  — runs every check with the current VERIF_SEED and prints one line per check
TIER=${1:-quick}
for i in 01 02 03 04 05 06 07 08 09 10 11 12 13 14 15 16 17 18; do
  s=$(date +%s)
  ./check C$i $TIER > /tmp/run_all_C$i.log 2>&1; rc=$?
  e=$(date +%s)
  echo "C$i rc=$rc $((e-s))s viol=$(grep -c '^VIOLATION' /tmp/run_all_C$i.log) known=$(grep -c '^KNOWN-FINDING' /tmp/run_all_C$i.log) $(grep -E 'INFRA' /tmp/run_all_C$i.log | head -1 | cut -c1-150)"
done
