// Copies char_range_gen's main.rs into OUT_DIR without its inner attribute so that it can be
// include!d inside a module (giving the harness access to the private generator function).
use std::fs;
use std::path::PathBuf;

fn main() {
    let src = PathBuf::from("/repo/crates/char_range_gen/src/main.rs");
    println!("cargo:rerun-if-changed={}", src.display());
    println!("cargo:rerun-if-changed=/repo/crates/lexgen/src/range_map.rs");
    let text = fs::read_to_string(&src).expect("char_range_gen main.rs");
    let mut out = String::new();
    let mut skipping = false;
    for line in text.lines() {
        let t = line.trim_start();
        if t.starts_with("#![") {
            if !t.contains(']') {
                skipping = true;
            }
            continue;
        }
        if skipping {
            if t.contains(")]") {
                skipping = false;
            }
            continue;
        }
        out.push_str(line);
        out.push('\n');
    }
    if !out.contains("fn generate_char_fn_ranges(f: fn(char) -> bool) -> Vec<(u32, u32)>") {
        panic!("VERIF-INFRA: char_range_gen no longer has `fn generate_char_fn_ranges(f: fn(char) -> bool) -> Vec<(u32, u32)>`; adapt the harness");
    }
    let dst = PathBuf::from(std::env::var("OUT_DIR").unwrap()).join("char_range_gen_main.rs");
    fs::write(dst, out).unwrap();
}
