//! C18: the built-in table generator (`char_range_gen`) against an independent run-length
//! encoding of the predicate's membership over all scalar values.

// The repository's generator, included verbatim (minus its inner attribute) so that the private
// `generate_char_fn_ranges` is a sibling item.
include!(concat!(env!("OUT_DIR"), "/char_range_gen_main.rs"));

use proptest::prelude::*;
use proptest::strategy::ValueTree;
use proptest::test_runner::{Config, RngAlgorithm, TestRng, TestRunner};
use serde_json::{json, Value};
use std::cell::RefCell;
use std::panic::{catch_unwind, AssertUnwindSafe};

const MAXC: u32 = 0x10FFFF;

#[derive(Clone, Debug)]
pub enum Pred {
    /// Toggle points: membership starts as `init` at 0 and flips at every listed code point.
    Toggles { init: bool, at: Vec<u32> },
    /// Hash-sparse membership: c is a member iff hash(c, salt) % modulus == 0.
    Sparse { salt: u32, modulus: u32 },
    /// One of the 20 real predicates (index into the generator's own FNS table).
    Real(usize),
}

impl Pred {
    fn eval(&self, c: char) -> bool {
        match self {
            Pred::Toggles { init, at } => {
                let k = at.partition_point(|&t| t <= c as u32);
                *init ^ (k % 2 == 1)
            }
            Pred::Sparse { salt, modulus } => {
                let mut x = (c as u32).wrapping_mul(0x9E3779B1) ^ salt;
                x ^= x >> 15;
                x = x.wrapping_mul(0x85EBCA6B);
                x ^= x >> 13;
                x % modulus == 0
            }
            Pred::Real(i) => (FNS[*i].0)(c),
        }
    }
    fn json(&self) -> Value {
        match self {
            Pred::Toggles { init, at } => json!({"toggles": {"init": init, "at": at}}),
            Pred::Sparse { salt, modulus } => json!({"sparse": {"salt": salt, "modulus": modulus}}),
            Pred::Real(i) => json!({"real": FNS[*i].1}),
        }
    }
    fn from_json(v: &Value) -> Pred {
        if let Some(t) = v.get("toggles") {
            Pred::Toggles {
                init: t["init"].as_bool().unwrap_or(false),
                at: t["at"].as_array().map(|a| a.iter().map(|x| x.as_u64().unwrap_or(0) as u32).collect()).unwrap_or_default(),
            }
        } else if let Some(s) = v.get("sparse") {
            Pred::Sparse {
                salt: s["salt"].as_u64().unwrap_or(0) as u32,
                modulus: s["modulus"].as_u64().unwrap_or(2).max(1) as u32,
            }
        } else {
            let name = v["real"].as_str().unwrap_or("");
            Pred::Real(FNS.iter().position(|(_, n)| *n == name).unwrap_or(0))
        }
    }
}

thread_local! {
    static CURRENT: RefCell<Pred> = const { RefCell::new(Pred::Toggles { init: false, at: vec![] }) };
}

/// The `fn(char) -> bool` handed to the generator: reads the thread-local predicate description.
fn current_pred(c: char) -> bool {
    CURRENT.with(|p| p.borrow().eval(c))
}

/// Independent oracle: the unique list of maximal runs of consecutive *scalar values* (a run may
/// span the surrogate gap) on which the predicate holds.
fn expected(p: &Pred) -> Vec<(u32, u32)> {
    let mut out = vec![];
    let mut run: Option<(u32, u32)> = None;
    let mut chunk = |lo: u32, hi: u32, run: &mut Option<(u32, u32)>, out: &mut Vec<(u32, u32)>| {
        for i in lo..=hi {
            let c = char::from_u32(i).unwrap();
            if p.eval(c) {
                match run {
                    Some(r) => r.1 = i,
                    None => *run = Some((i, i)),
                }
            } else if let Some(r) = run.take() {
                out.push(r);
            }
        }
    };
    chunk(0, 0xD7FF, &mut run, &mut out);
    chunk(0xE000, MAXC, &mut run, &mut out);
    if let Some(r) = run {
        out.push(r);
    }
    out
}

fn nontrivial(p: &Pred) -> bool {
    let e = |x: u32| p.eval(char::from_u32(x).unwrap());
    e(MAXC) || e(0xD7FF) != e(0xD7FE) || e(0xE000) != e(0xE001) || e(0xD7FF) != e(0xE000) || (e(0xD7FF) && e(0xE000))
}

pub fn check(p: &Pred) -> Result<(), String> {
    CURRENT.with(|c| *c.borrow_mut() = p.clone());
    let got = catch_unwind(AssertUnwindSafe(|| generate_char_fn_ranges(current_pred)))
        .map_err(|_| "the generator panicked".to_string())?;
    // structural requirements the macro relies on
    for (i, (a, b)) in got.iter().enumerate() {
        if a > b {
            return Err(format!("range {} is inverted: ({}, {})", i, a, b));
        }
        if char::from_u32(*a).is_none() || char::from_u32(*b).is_none() {
            return Err(format!("range {} = ({:#x}, {:#x}) has an end point that is not a scalar value", i, a, b));
        }
        if i > 0 {
            let prev = got[i - 1];
            if prev.1 >= *a {
                return Err(format!("ranges {} and {} overlap or are unsorted: {:?} {:?}", i - 1, i, prev, (a, b)));
            }
            let adjacent = prev.1 + 1 == *a || (prev.1 == 0xD7FF && *a == 0xE000);
            if adjacent {
                return Err(format!("ranges {:?} and {:?} are adjacent (not maximal)", prev, (a, b)));
            }
        }
    }
    let want = expected(p);
    if got != want {
        let k = got.iter().zip(want.iter()).position(|(x, y)| x != y).unwrap_or(got.len().min(want.len()));
        return Err(format!(
            "table differs from the maximal-run encoding at index {}: got {:?} expected {:?} ({} vs {} ranges)",
            k,
            got.get(k),
            want.get(k),
            got.len(),
            want.len()
        ));
    }
    Ok(())
}

const CUTS: [u32; 10] = [0, 1, 0x7F, 0x80, 0xD7FE, 0xD7FF, 0xE000, 0xE001, 0x10FFFE, 0x10FFFF];

/// Every union of the atomic segments cut by CUTS: membership of segment i = bit i of `mask`
/// (segment i = [CUTS[i], CUTS[i+1]-1], the last one = [0x10FFFF]).
fn exhaustive_pred(mask: u32) -> Pred {
    let mut at = vec![];
    let mut cur = mask & 1 == 1;
    let init = cur;
    for i in 1..CUTS.len() {
        let m = (mask >> i) & 1 == 1;
        if m != cur {
            at.push(CUTS[i]);
            cur = m;
        }
    }
    Pred::Toggles { init, at }
}

fn toggle_strategy() -> impl Strategy<Value = Pred> {
    let point = prop_oneof![
        2 => 0u32..0x100,
        2 => 0xD7F0u32..=0xD7FF,
        2 => 0xE000u32..0xE010,
        2 => (MAXC - 16)..=MAXC,
        4 => 0u32..=MAXC,
    ];
    (any::<bool>(), proptest::collection::vec(point, 1..200)).prop_map(|(init, mut at)| {
        at.retain(|x| !(0xD800..=0xDFFF).contains(x));
        at.sort();
        at.dedup();
        Pred::Toggles { init, at }
    })
}

fn sparse_strategy() -> impl Strategy<Value = Pred> {
    (any::<u32>(), prop_oneof![Just(2u32), Just(3), Just(7), Just(64), Just(1000), Just(65536)]).prop_map(|(salt, modulus)| Pred::Sparse { salt, modulus })
}

pub fn run(thorough: bool, seed: u64) -> String {
    let mut preds: Vec<Pred> = vec![];
    // exhaustive family: all 2^10 unions of the atomic segments
    for mask in 0..(1u32 << CUTS.len()) {
        preds.push(exhaustive_pred(mask));
    }
    let n_exhaustive = preds.len();
    for i in 0..FNS.len() {
        preds.push(Pred::Real(i));
    }
    let n_random = if thorough { 4000 } else { 300 };
    let cfg = Config {
        failure_persistence: None,
        ..Config::default()
    };
    let mut runner = TestRunner::new_with_rng(cfg, TestRng::from_seed(RngAlgorithm::ChaCha, &crate::rng_seed(seed, "tablegen")));
    let ts = toggle_strategy();
    let ss = sparse_strategy();
    for i in 0..n_random {
        if i % 4 == 3 {
            preds.push(ss.new_tree(&mut runner).unwrap().current());
        } else {
            preds.push(ts.new_tree(&mut runner).unwrap().current());
        }
    }

    let n = preds.len();
    let next = std::sync::atomic::AtomicUsize::new(0);
    let results: std::sync::Mutex<Vec<(usize, Result<(), String>)>> = std::sync::Mutex::new(vec![]);
    let threads = std::thread::available_parallelism().map(|x| x.get()).unwrap_or(8).min(16);
    std::thread::scope(|s| {
        for _ in 0..threads {
            s.spawn(|| loop {
                let i = next.fetch_add(1, std::sync::atomic::Ordering::SeqCst);
                if i >= n {
                    break;
                }
                let r = check(&preds[i]);
                results.lock().unwrap().push((i, r));
            });
        }
    });
    let mut results = results.into_inner().unwrap();
    results.sort_by_key(|(i, _)| *i);
    let mut violations = vec![];
    let mut nt = std::collections::HashSet::new();
    let mut samples = vec![];
    for (i, r) in &results {
        let p = &preds[*i];
        if nontrivial(p) {
            if nt.insert(format!("{:?}", p)) && samples.len() < 4 && (*i % 97 == 5 || *i >= n_exhaustive) {
                samples.push(p.json());
            }
        }
        if let Err(e) = r {
            if violations.len() < 3 {
                violations.push(json!({"pred": p.json(), "reason": e}));
            }
        }
    }
    if samples.is_empty() {
        samples.push(preds[5].json());
    }
    json!({
        "evaluations": n,
        "distinct_nontrivial": nt.len(),
        "exhaustive_boundary_predicates": n_exhaustive,
        "real_predicates": FNS.len(),
        "random_predicates": n_random,
        "scalars_scanned_per_predicate": 1112064,
        "samples": samples,
        "violations": violations,
    })
    .to_string()
}

pub fn replay(arg: &str) -> String {
    let v: Value = serde_json::from_str(arg).unwrap_or(json!({}));
    let p = Pred::from_json(&v["pred"]);
    match check(&p) {
        Ok(()) => json!({"violations": []}).to_string(),
        Err(e) => json!({"violations": [{"pred": p.json(), "reason": e}]}).to_string(),
    }
}
