//! C11(a): model-based testing of `RangeMap` — sequences of insert / insert_ranges /
//! remove_ranges against a point-wise model, with structural invariants after every operation.

#[path = "/repo/crates/lexgen/src/range_map.rs"]
#[allow(clippy::all)]
mod range_map;

use proptest::prelude::*;
use proptest::test_runner::{Config, RngAlgorithm, TestCaseError, TestRng, TestRunner};
use range_map::{Range, RangeMap};
use serde_json::{json, Value};
use std::collections::BTreeSet;
use std::panic::{catch_unwind, AssertUnwindSafe};

const MAXC: u32 = 0x10FFFF;

#[derive(Clone, Debug, PartialEq, Eq)]
pub enum Op {
    Insert(u32, u32, u8),
    /// sorted, disjoint ranges with values
    InsertRanges(Vec<(u32, u32, u8)>),
    /// sorted, disjoint ranges
    Remove(Vec<(u32, u32)>),
}

fn op_json(op: &Op) -> Value {
    match op {
        Op::Insert(a, b, v) => json!({"insert": [a, b, v]}),
        Op::InsertRanges(l) => json!({"insert_ranges": l.iter().map(|(a, b, v)| json!([a, b, v])).collect::<Vec<_>>()}),
        Op::Remove(l) => json!({"remove_ranges": l.iter().map(|(a, b)| json!([a, b])).collect::<Vec<_>>()}),
    }
}

fn op_from_json(v: &Value) -> Op {
    let t = |x: &Value, i: usize| x[i].as_u64().unwrap_or(0);
    if let Some(a) = v.get("insert") {
        Op::Insert(t(a, 0) as u32, t(a, 1) as u32, t(a, 2) as u8)
    } else if let Some(l) = v.get("insert_ranges") {
        Op::InsertRanges(
            l.as_array()
                .unwrap()
                .iter()
                .map(|x| (t(x, 0) as u32, t(x, 1) as u32, t(x, 2) as u8))
                .collect(),
        )
    } else {
        Op::Remove(
            v["remove_ranges"]
                .as_array()
                .unwrap()
                .iter()
                .map(|x| (t(x, 0) as u32, t(x, 1) as u32))
                .collect(),
        )
    }
}

type Val = BTreeSet<u8>;

fn merge(a: &mut Val, b: Val) {
    a.extend(b);
}

/// Point-wise model: value of point `x` after the operations (None = not in the map).
fn model_at(ops: &[Op], x: u32) -> Option<Val> {
    let mut cur: Option<Val> = None;
    for op in ops {
        match op {
            Op::Insert(a, b, v) => {
                if *a <= x && x <= *b {
                    cur.get_or_insert_with(Val::new).insert(*v);
                }
            }
            Op::InsertRanges(l) => {
                for (a, b, v) in l {
                    if *a <= x && x <= *b {
                        cur.get_or_insert_with(Val::new).insert(*v);
                    }
                }
            }
            Op::Remove(l) => {
                if l.iter().any(|(a, b)| *a <= x && x <= *b) {
                    cur = None;
                }
            }
        }
    }
    cur
}

fn probe_points(ops: &[Op], universe_max: u32) -> Vec<u32> {
    if universe_max <= 64 {
        return (0..=universe_max + 1).collect();
    }
    let mut v = vec![0, MAXC];
    let mut add = |x: u32| {
        for d in [x.wrapping_sub(1), x, x.wrapping_add(1)] {
            if d <= MAXC + 1 {
                v.push(d);
            }
        }
    };
    for op in ops {
        match op {
            Op::Insert(a, b, _) => {
                add(*a);
                add(*b)
            }
            Op::InsertRanges(l) => {
                for (a, b, _) in l {
                    add(*a);
                    add(*b)
                }
            }
            Op::Remove(l) => {
                for (a, b) in l {
                    add(*a);
                    add(*b)
                }
            }
        }
    }
    v.sort();
    v.dedup();
    v
}

fn apply(map: &mut RangeMap<Val>, op: &Op) {
    match op {
        Op::Insert(a, b, v) => {
            let mut s = Val::new();
            s.insert(*v);
            map.insert(*a, *b, s, merge);
        }
        Op::InsertRanges(l) => {
            let ranges: Vec<Range<Val>> = l
                .iter()
                .map(|(a, b, v)| {
                    let mut s = Val::new();
                    s.insert(*v);
                    Range {
                        start: *a,
                        end: *b,
                        value: s,
                    }
                })
                .collect();
            let other = RangeMap::from_non_overlapping_sorted_ranges(ranges);
            map.insert_ranges(other.into_iter(), merge);
        }
        Op::Remove(l) => {
            let ranges: Vec<Range<()>> = l
                .iter()
                .map(|(a, b)| Range {
                    start: *a,
                    end: *b,
                    value: (),
                })
                .collect();
            let other = RangeMap::from_non_overlapping_sorted_ranges(ranges);
            map.remove_ranges(&other);
        }
    }
}

/// Number of pieces of `pieces` an operation's ranges overlap, and whether a removed range equals
/// a piece (the non-triviality rule).
fn touches(pieces: &[(u32, u32)], op: &Op) -> (usize, bool) {
    let rs: Vec<(u32, u32)> = match op {
        Op::Insert(a, b, _) => vec![(*a, *b)],
        Op::InsertRanges(l) => l.iter().map(|(a, b, _)| (*a, *b)).collect(),
        Op::Remove(l) => l.clone(),
    };
    let mut max_touch = 0;
    let mut equal = false;
    for (a, b) in rs {
        let t = pieces.iter().filter(|(s, e)| !(*e < a || b < *s)).count();
        max_touch = max_touch.max(t);
        if matches!(op, Op::Remove(_)) && pieces.iter().any(|p| *p == (a, b)) {
            equal = true;
        }
    }
    (max_touch, equal)
}

/// Runs the sequence, checking invariants and the model after every operation.
/// Ok(non-trivial?) or Err(description).
pub fn check(ops: &[Op], universe_max: u32) -> Result<bool, String> {
    let r = catch_unwind(AssertUnwindSafe(|| -> Result<bool, String> {
        let mut map: RangeMap<Val> = RangeMap::new();
        let mut nontrivial = false;
        for (k, op) in ops.iter().enumerate() {
            let pieces: Vec<(u32, u32)> = map.iter().map(|r| (r.start, r.end)).collect();
            let (t, eq) = touches(&pieces, op);
            if t >= 2 || eq {
                nontrivial = true;
            }
            apply(&mut map, op);
            let got: Vec<(u32, u32, Val)> = map.iter().map(|r| (r.start, r.end, r.value.clone())).collect();
            for (i, (s, e, v)) in got.iter().enumerate() {
                if s > e {
                    return Err(format!("after op {}: inverted piece [{}, {}]", k, s, e));
                }
                if *e > MAXC {
                    return Err(format!("after op {}: piece [{}, {}] exceeds char::MAX", k, s, e));
                }
                if v.is_empty() {
                    return Err(format!("after op {}: piece [{}, {}] has an empty value", k, s, e));
                }
                if i > 0 && got[i - 1].1 >= *s {
                    return Err(format!(
                        "after op {}: pieces [{}, {}] and [{}, {}] overlap or are unsorted",
                        k,
                        got[i - 1].0,
                        got[i - 1].1,
                        s,
                        e
                    ));
                }
            }
            for x in probe_points(&ops[..=k], universe_max) {
                let want = model_at(&ops[..=k], x);
                let have = got.iter().find(|(s, e, _)| *s <= x && x <= *e).map(|(_, _, v)| v.clone());
                if want != have {
                    return Err(format!(
                        "after op {}: point {} has value {:?} in the map but {:?} in the point-wise model; pieces = {:?}",
                        k, x, have, want, got
                    ));
                }
            }
        }
        Ok(nontrivial)
    }));
    match r {
        Ok(x) => x,
        Err(e) => {
            let msg = if let Some(s) = e.downcast_ref::<&str>() {
                s.to_string()
            } else if let Some(s) = e.downcast_ref::<String>() {
                s.clone()
            } else {
                "<panic>".into()
            };
            Err(format!("panic inside RangeMap: {}", msg))
        }
    }
}

fn all_ranges(u: u32) -> Vec<(u32, u32)> {
    let mut v = vec![];
    for a in 0..=u {
        for b in a..=u {
            v.push((a, b));
        }
    }
    v
}

/// All sorted disjoint lists of 1..=2 ranges over 0..=u.
fn all_lists(u: u32) -> Vec<Vec<(u32, u32)>> {
    let rs = all_ranges(u);
    let mut v: Vec<Vec<(u32, u32)>> = rs.iter().map(|r| vec![*r]).collect();
    for a in &rs {
        for b in &rs {
            if a.1 < b.0 {
                v.push(vec![*a, *b]);
            }
        }
    }
    v
}

fn boundary() -> impl Strategy<Value = u32> {
    prop_oneof![
        3 => 0u32..40,
        1 => Just(0u32),
        1 => Just(MAXC),
        1 => Just(0xD7FFu32),
        1 => Just(0xE000u32),
        2 => (MAXC - 40)..=MAXC,
        2 => 0u32..=MAXC,
        2 => 0x60u32..0x80,
    ]
}

fn sorted_disjoint(max_n: usize) -> impl Strategy<Value = Vec<(u32, u32)>> {
    proptest::collection::vec(boundary(), 2..=2 * max_n).prop_map(|mut v| {
        v.sort();
        let mut out: Vec<(u32, u32)> = vec![];
        for c in v.chunks(2) {
            if c.len() == 2 {
                let (a, b) = (c[0], c[1]);
                match out.last() {
                    Some(l) if l.1 >= a => {}
                    _ => out.push((a, b)),
                }
            }
        }
        out
    })
}

fn op_strategy() -> impl Strategy<Value = Op> {
    prop_oneof![
        4 => (boundary(), boundary(), 0u8..4).prop_map(|(a, b, v)| Op::Insert(a.min(b), a.max(b), v)),
        2 => (sorted_disjoint(4), 0u8..4).prop_map(|(l, v)| Op::InsertRanges(l.into_iter().enumerate().map(|(i, (a, b))| (a, b, (v + i as u8) % 4)).collect())),
        4 => sorted_disjoint(4).prop_map(Op::Remove),
        // long lists: removed / inserted maps with many more pieces than the map itself
        1 => sorted_disjoint(24).prop_map(Op::Remove),
        1 => (sorted_disjoint(24), 0u8..4).prop_map(|(l, v)| Op::InsertRanges(l.into_iter().map(|(a, b)| (a, b, v)).collect())),
    ]
}

/// Ops whose end points are taken from the current boundaries of the sequence so far (±1): the
/// interesting coincidences (removed range equal to a piece, spanning several pieces) become
/// frequent instead of accidental.
fn seq_strategy(max_ops: usize) -> impl Strategy<Value = Vec<Op>> {
    (proptest::collection::vec(op_strategy(), 1..=max_ops), proptest::collection::vec(any::<u32>(), 0..=4 * max_ops)).prop_map(|(mut ops, tweaks)| {
        // re-anchor some end points on earlier boundaries
        let mut bounds: Vec<u32> = vec![];
        let mut ti = 0;
        for op in ops.iter_mut() {
            let mut snap = |x: &mut u32, bounds: &Vec<u32>| {
                if let Some(t) = tweaks.get(ti) {
                    ti += 1;
                    if !bounds.is_empty() && t % 3 != 0 {
                        let b = bounds[(*t as usize / 3) % bounds.len()];
                        let d = (t >> 8) % 3;
                        let nb = match d {
                            0 => b,
                            1 => b.saturating_sub(1),
                            _ => (b + 1).min(MAXC),
                        };
                        *x = nb;
                    }
                }
            };
            match op {
                Op::Insert(a, b, _) => {
                    snap(a, &bounds);
                    snap(b, &bounds);
                    if a > b {
                        std::mem::swap(a, b);
                    }
                    bounds.push(*a);
                    bounds.push(*b);
                }
                Op::InsertRanges(l) => {
                    if l.len() <= 6 && !bounds.is_empty() {
                        // anchor the inserted list on earlier boundaries as well
                        let mut l2: Vec<(u32, u32, u8)> = vec![];
                        for (a, b, v) in l.iter() {
                            let (mut a, mut b) = (*a, *b);
                            snap(&mut a, &bounds);
                            snap(&mut b, &bounds);
                            l2.push((a.min(b), a.max(b), *v));
                        }
                        l2.sort();
                        let mut out: Vec<(u32, u32, u8)> = vec![];
                        for (a, b, v) in l2 {
                            match out.last() {
                                Some(x) if x.1 >= a => {}
                                _ => out.push((a, b, v)),
                            }
                        }
                        *l = out;
                    }
                    for (a, b, _) in l.iter() {
                        bounds.push(*a);
                        bounds.push(*b);
                    }
                }
                Op::Remove(l) => {
                    if l.len() >= 2 && l.len() <= 6 && !bounds.is_empty() {
                        let mut l2: Vec<(u32, u32)> = vec![];
                        for (a, b) in l.iter() {
                            let (mut a, mut b) = (*a, *b);
                            snap(&mut a, &bounds);
                            snap(&mut b, &bounds);
                            l2.push((a.min(b), a.max(b)));
                        }
                        l2.sort();
                        let mut out: Vec<(u32, u32)> = vec![];
                        for (a, b) in l2 {
                            match out.last() {
                                Some(x) if x.1 >= a => {}
                                _ => out.push((a, b)),
                            }
                        }
                        *l = out;
                    }
                    if l.len() == 1 {
                        let (mut a, mut b) = l[0];
                        snap(&mut a, &bounds);
                        snap(&mut b, &bounds);
                        if a > b {
                            std::mem::swap(&mut a, &mut b);
                        }
                        l[0] = (a, b);
                    }
                    for (a, b) in l.iter() {
                        bounds.push(*a);
                        bounds.push(*b);
                    }
                }
            }
        }
        ops
    })
}

/// A map with 32-300 pieces (small gaps, short pieces, a random base) built by one
/// `insert_ranges`, followed by a few operations anchored on its boundaries: code paths that
/// depend on the size of the map (bulk copies, in-place splicing, binary search) are reached.
fn big_seq_strategy() -> impl Strategy<Value = Vec<Op>> {
    let base = prop_oneof![Just(0u32), Just(0x30u32), Just(0xD700u32), Just(0xE000u32), 0u32..0x2000, Just(MAXC - 3000)];
    let pieces = proptest::collection::vec((1u32..=6, 0u32..=4, 0u8..3), 32..300);
    (base, pieces, seq_strategy(5), proptest::collection::vec(any::<u32>(), 24)).prop_map(|(base, pieces, mut tail, tw)| {
        let mut x = base;
        let mut big: Vec<(u32, u32, u8)> = vec![];
        for (gap, len, v) in pieces {
            let a = x + gap;
            let b = a + len;
            if b >= MAXC {
                break;
            }
            big.push((a, b, v));
            x = b;
        }
        // re-anchor the end points of the following operations on pieces of the big map
        let n = big.len().max(1);
        let mut ti = 0usize;
        let mut anchor = |x: &mut u32| {
            let t = tw[ti % tw.len()];
            ti += 1;
            if t % 4 != 0 && !big.is_empty() {
                let p = big[(t as usize / 4) % n];
                let e = if (t >> 12) % 2 == 0 { p.0 } else { p.1 };
                *x = match (t >> 16) % 3 {
                    0 => e,
                    1 => e.saturating_sub(1),
                    _ => (e + 1).min(MAXC),
                };
            }
        };
        for op in tail.iter_mut() {
            match op {
                Op::Insert(a, b, _) => {
                    anchor(a);
                    anchor(b);
                    if a > b {
                        std::mem::swap(a, b);
                    }
                }
                Op::Remove(l) if l.len() <= 6 => {
                    let mut l2: Vec<(u32, u32)> = l
                        .iter()
                        .map(|(a, b)| {
                            let (mut a, mut b) = (*a, *b);
                            anchor(&mut a);
                            anchor(&mut b);
                            (a.min(b), a.max(b))
                        })
                        .collect();
                    l2.sort();
                    let mut out: Vec<(u32, u32)> = vec![];
                    for (a, b) in l2 {
                        match out.last() {
                            Some(x) if x.1 >= a => {}
                            _ => out.push((a, b)),
                        }
                    }
                    *l = out;
                }
                Op::InsertRanges(l) if l.len() <= 6 => {
                    let mut l2: Vec<(u32, u32, u8)> = l
                        .iter()
                        .map(|(a, b, v)| {
                            let (mut a, mut b) = (*a, *b);
                            anchor(&mut a);
                            anchor(&mut b);
                            (a.min(b), a.max(b), *v)
                        })
                        .collect();
                    l2.sort();
                    let mut out: Vec<(u32, u32, u8)> = vec![];
                    for (a, b, v) in l2 {
                        match out.last() {
                            Some(x) if x.1 >= a => {}
                            _ => out.push((a, b, v)),
                        }
                    }
                    *l = out;
                }
                _ => {}
            }
        }
        let mut ops = vec![Op::InsertRanges(big)];
        ops.extend(tail);
        ops
    })
}

pub fn run(thorough: bool, seed: u64) -> String {
    let mut evaluations: u64 = 0;
    let mut nontrivial: u64 = 0;
    let mut samples: Vec<Value> = vec![];
    let mut violations: Vec<Value> = vec![];

    // (1) bounded-exhaustive: every sequence of up to `pre` inserts followed by one operation of
    // any kind, over the universe 0..=u. All sequences are distinct by construction.
    let u: u32 = if thorough { 7 } else { 5 };
    let ranges = all_ranges(u);
    let lists = all_lists(u);
    let mut inserts: Vec<Op> = vec![];
    for (a, b) in &ranges {
        for v in 0..2u8 {
            inserts.push(Op::Insert(*a, *b, v));
        }
    }
    let mut last_ops: Vec<Op> = inserts.clone();
    for l in &lists {
        last_ops.push(Op::Remove(l.clone()));
        last_ops.push(Op::InsertRanges(l.iter().enumerate().map(|(i, (a, b))| (*a, *b, 2 + i as u8)).collect()));
    }
    let mut exhaustive_count: u64 = 0;
    let mut prefixes: Vec<Vec<Op>> = vec![vec![]];
    for a in &inserts {
        prefixes.push(vec![a.clone()]);
    }
    for a in &inserts {
        for b in &inserts {
            prefixes.push(vec![a.clone(), b.clone()]);
        }
    }
    'outer: for p in &prefixes {
        for last in &last_ops {
            let mut seq = p.clone();
            seq.push(last.clone());
            evaluations += 1;
            exhaustive_count += 1;
            match check(&seq, u) {
                Ok(nt) => {
                    if nt {
                        nontrivial += 1;
                        if samples.len() < 3 && seq.len() == 3 {
                            samples.push(json!(seq.iter().map(op_json).collect::<Vec<_>>()));
                        }
                    }
                }
                Err(e) => {
                    violations.push(json!({"ops": seq.iter().map(op_json).collect::<Vec<_>>(), "universe_max": u, "reason": e}));
                    if violations.len() >= 3 {
                        break 'outer;
                    }
                }
            }
        }
    }

    // (2) random sequences over the full scalar range, shrunk by proptest
    let cases: u32 = if thorough { 400_000 } else { 40_000 };
    let cfg = Config {
        cases,
        failure_persistence: None,
        max_shrink_iters: 4000,
        ..Config::default()
    };
    let mut runner = TestRunner::new_with_rng(cfg, TestRng::from_seed(RngAlgorithm::ChaCha, &crate::rng_seed(seed, "rangemap")));
    let rnd_eval = std::cell::Cell::new(0u64);
    let rnd_nt = std::cell::RefCell::new(std::collections::HashSet::new());
    let rnd_samples: std::cell::RefCell<Vec<Value>> = std::cell::RefCell::new(vec![]);
    let failed = std::cell::Cell::new(false);
    let res = runner.run(&seq_strategy(12), |ops| {
        if !failed.get() {
            rnd_eval.set(rnd_eval.get() + 1);
        }
        match check(&ops, MAXC) {
            Ok(nt) => {
                if nt && !failed.get() {
                    use std::hash::{Hash, Hasher};
                    let mut h = std::collections::hash_map::DefaultHasher::new();
                    format!("{:?}", ops).hash(&mut h);
                    if rnd_nt.borrow_mut().insert(h.finish()) && rnd_samples.borrow().len() < 3 {
                        rnd_samples.borrow_mut().push(json!(ops.iter().map(op_json).collect::<Vec<_>>()));
                    }
                }
                Ok(())
            }
            Err(e) => {
                failed.set(true);
                Err(TestCaseError::fail(e))
            }
        }
    });
    if let Err(proptest::test_runner::TestError::Fail(reason, ops)) = res {
        violations.push(json!({"ops": ops.iter().map(op_json).collect::<Vec<_>>(), "universe_max": MAXC, "reason": reason.to_string()}));
    }
    // (3) large maps
    let big_cases: u32 = if thorough { 100_000 } else { 12_000 };
    let cfg = Config {
        cases: big_cases,
        failure_persistence: None,
        max_shrink_iters: 6000,
        ..Config::default()
    };
    let mut runner = TestRunner::new_with_rng(cfg, TestRng::from_seed(RngAlgorithm::ChaCha, &crate::rng_seed(seed, "rangemap-big")));
    let big_eval = std::cell::Cell::new(0u64);
    if violations.is_empty() {
        failed.set(false);
        let res = runner.run(&big_seq_strategy(), |ops| {
            if !failed.get() {
                big_eval.set(big_eval.get() + 1);
            }
            match check(&ops, MAXC) {
                Ok(nt) => {
                    if nt && !failed.get() {
                        use std::hash::{Hash, Hasher};
                        let mut h = std::collections::hash_map::DefaultHasher::new();
                        format!("{:?}", ops).hash(&mut h);
                        rnd_nt.borrow_mut().insert(h.finish());
                    }
                    Ok(())
                }
                Err(e) => {
                    failed.set(true);
                    Err(TestCaseError::fail(e))
                }
            }
        });
        if let Err(proptest::test_runner::TestError::Fail(reason, ops)) = res {
            violations.push(json!({"ops": ops.iter().map(op_json).collect::<Vec<_>>(), "universe_max": MAXC, "reason": reason.to_string()}));
        }
    }
    let big_eval = big_eval.get();
    evaluations += big_eval;
    let rnd_eval = rnd_eval.get();
    let rnd_nt = rnd_nt.into_inner();
    let rnd_samples = rnd_samples.into_inner();
    evaluations += rnd_eval;
    nontrivial += rnd_nt.len() as u64;
    samples.extend(rnd_samples);

    json!({
        "evaluations": evaluations,
        "distinct_nontrivial": nontrivial,
        "exhaustive_sequences": exhaustive_count,
        "exhaustive_universe_max": u,
        "random_sequences": rnd_eval,
        "large_map_sequences": big_eval,
        "samples": samples,
        "violations": violations,
    })
    .to_string()
}

pub fn replay(arg: &str) -> String {
    let v: Value = serde_json::from_str(arg).unwrap_or(json!({}));
    let ops: Vec<Op> = v["ops"].as_array().map(|a| a.iter().map(op_from_json).collect()).unwrap_or_default();
    let u = v["universe_max"].as_u64().unwrap_or(MAXC as u64) as u32;
    match check(&ops, u) {
        Ok(_) => json!({"violations": []}).to_string(),
        Err(e) => json!({"violations": [{"ops": v["ops"], "universe_max": u, "reason": e}]}).to_string(),
    }
}
