//! Engine C: direct harnesses around `range_map.rs` (C11) and `char_range_gen` (C18).
//! usage: enginec rangemap|tablegen quick|thorough <seed>   |   enginec replay-rangemap '<json>'
//! Prints one JSON report on stdout.
#![allow(dead_code)]

mod rangemap;
mod tablegen;

fn main() {
    let args: Vec<String> = std::env::args().skip(1).collect();
    let thorough = args.get(1).map(|s| s == "thorough").unwrap_or(false);
    let seed: u64 = args.get(2).and_then(|s| s.parse().ok()).unwrap_or(0);
    let report = match args.first().map(|s| s.as_str()) {
        Some("rangemap") => rangemap::run(thorough, seed),
        Some("tablegen") => tablegen::run(thorough, seed),
        Some("replay-rangemap") => rangemap::replay(args.get(1).map(|s| s.as_str()).unwrap_or("[]")),
        Some("replay-tablegen") => tablegen::replay(args.get(1).map(|s| s.as_str()).unwrap_or("{}")),
        _ => {
            eprintln!("usage: enginec rangemap|tablegen quick|thorough <seed>");
            std::process::exit(2);
        }
    };
    println!("{}", report);
}

pub fn rng_seed(seed: u64, salt: &str) -> [u8; 32] {
    let mut h1: u64 = 0xcbf29ce484222325;
    for b in format!("{}|{}", seed, salt).bytes() {
        h1 ^= b as u64;
        h1 = h1.wrapping_mul(0x100000001b3);
    }
    let mut bytes = [0u8; 32];
    bytes[..8].copy_from_slice(&h1.to_le_bytes());
    bytes[8..16].copy_from_slice(&seed.to_le_bytes());
    bytes[16..24].copy_from_slice(&h1.rotate_left(23).to_le_bytes());
    bytes[24..32].copy_from_slice(&(h1 ^ seed).to_le_bytes());
    bytes
}
