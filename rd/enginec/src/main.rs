fn main(){}
