//! Engine B worker: the repository's macro pipeline called in-process.
//! Reads JSON lines {"op": "expand"|"parse", "def": "<tokens inside lexer!{}>"} on stdin and
//! answers with one JSON line each.
#![allow(warnings)]

include!(concat!(env!("OUT_DIR"), "/lexgen_src/lib.rs"));

mod worker {
    use super::ast;
    use super::semantic_action_table::SemanticActionTable;
    use serde_json::{json, Value};
    use std::io::{BufRead, Write};
    use std::panic::{catch_unwind, AssertUnwindSafe};
    use std::str::FromStr;
    use syn::parse::Parser;

    fn panic_msg(e: Box<dyn std::any::Any + Send>) -> String {
        if let Some(s) = e.downcast_ref::<&str>() {
            s.to_string()
        } else if let Some(s) = e.downcast_ref::<String>() {
            s.clone()
        } else {
            "<non-string panic>".to_string()
        }
    }

    fn fnv(s: &str) -> u64 {
        let mut h: u64 = 0xcbf29ce484222325;
        for b in s.bytes() {
            h ^= b as u64;
            h = h.wrapping_mul(0x100000001b3);
        }
        h
    }

    fn sexp(re: &ast::Regex) -> String {
        use ast::{CharOrRange, Regex};
        match re {
            Regex::Builtin(b) => format!("(builtin {})", b.0),
            Regex::Var(v) => format!("(var {})", v.0),
            Regex::Char(c) => format!("(char {})", *c as u32),
            Regex::String(s) => format!(
                "(str{})",
                s.chars().map(|c| format!(" {}", c as u32)).collect::<String>()
            ),
            Regex::CharSet(set) => format!(
                "(set{})",
                set.0
                    .iter()
                    .map(|i| match i {
                        CharOrRange::Char(c) => format!(" {}", *c as u32),
                        CharOrRange::Range(a, b) => format!(" {}-{}", *a as u32, *b as u32),
                    })
                    .collect::<String>()
            ),
            Regex::ZeroOrMore(a) => format!("(star {})", sexp(a)),
            Regex::OneOrMore(a) => format!("(plus {})", sexp(a)),
            Regex::ZeroOrOne(a) => format!("(opt {})", sexp(a)),
            Regex::Concat(a, b) => format!("(cat {} {})", sexp(a), sexp(b)),
            Regex::Or(a, b) => format!("(alt {} {})", sexp(a), sexp(b)),
            Regex::Any => "any".to_string(),
            Regex::EndOfInput => "eoi".to_string(),
            Regex::Diff(a, b) => format!("(diff {} {})", sexp(a), sexp(b)),
        }
    }

    fn rob(r: &ast::RuleOrBinding) -> String {
        match r {
            ast::RuleOrBinding::Binding(b) => format!("(let {} {})", b.var.0, sexp(&b.re)),
            ast::RuleOrBinding::Rule(r) => match &r.lhs.right_ctx {
                None => format!("(rule {})", sexp(&r.lhs.re)),
                Some(c) => format!("(rule {} > {})", sexp(&r.lhs.re), sexp(c)),
            },
        }
    }

    fn parse(def: &str) -> Value {
        let ts = match proc_macro2::TokenStream::from_str(def) {
            Ok(ts) => ts,
            Err(e) => return json!({"status": "lex_error", "msg": e.to_string()}),
        };
        let r = catch_unwind(AssertUnwindSafe(|| {
            let mut table = SemanticActionTable::new();
            let res = ast::make_lexer_parser(&mut table).parse2(ts);
            match res {
                Err(e) => json!({"status": "compile_error", "msg": e.to_string()}),
                Ok(lexer) => {
                    let mut items = vec![];
                    for rule in &lexer.rules {
                        items.push(match rule {
                            ast::Rule::ErrorType { .. } => "(errtype)".to_string(),
                            ast::Rule::RuleOrBinding(r) => rob(r),
                            ast::Rule::RuleSet { name, rules } => format!(
                                "(ruleset {}{})",
                                name,
                                rules.iter().map(|r| format!(" {}", rob(r))).collect::<String>()
                            ),
                        });
                    }
                    json!({"status": "ok", "items": items})
                }
            }
        }));
        match r {
            Ok(v) => v,
            Err(e) => json!({"status": "panic", "msg": panic_msg(e)}),
        }
    }

    fn expand(def: &str, want_code: bool, twice: bool) -> Value {
        let ts = match proc_macro2::TokenStream::from_str(def) {
            Ok(ts) => ts,
            Err(e) => return json!({"status": "lex_error", "msg": e.to_string()}),
        };
        let ts2 = ts.clone();
        let r = catch_unwind(AssertUnwindSafe(|| super::lexer(ts).to_string()));
        if twice {
            // determinism within one process: expand the same tokens again
            let r2 = catch_unwind(AssertUnwindSafe(|| super::lexer(ts2).to_string()));
            if let (Ok(a), Ok(b)) = (&r, &r2) {
                if a != b {
                    return json!({"status": "nondeterministic", "msg": format!("two expansions in one process differ: {} vs {} bytes", a.len(), b.len())});
                }
            }
        }
        match r {
            Ok(code) => {
                // the expansion must at least be syntactically valid Rust
                if !code.contains("compile_error") {
                    match syn::parse_str::<syn::File>(&code) {
                        Err(e) => {
                            return json!({"status": "unparsable_output", "msg": format!("expansion is not valid Rust syntax: {}", e)});
                        }
                        Ok(file) => {
                            // items of one namespace must have distinct names (rustc E0428)
                            let mut values = std::collections::HashSet::new();
                            let mut types = std::collections::HashSet::new();
                            for item in &file.items {
                                let (ns, name) = match item {
                                    syn::Item::Fn(f) => (0, f.sig.ident.to_string()),
                                    syn::Item::Static(s) => (0, s.ident.to_string()),
                                    syn::Item::Const(c) => (0, c.ident.to_string()),
                                    syn::Item::Struct(s) => (1, s.ident.to_string()),
                                    syn::Item::Enum(e) => (1, e.ident.to_string()),
                                    syn::Item::Type(t) => (1, t.ident.to_string()),
                                    _ => continue,
                                };
                                let fresh = if ns == 0 { values.insert(name.clone()) } else { types.insert(name.clone()) };
                                if !fresh {
                                    return json!({"status": "unparsable_output", "msg": format!("expansion defines the item `{}` twice (E0428)", name)});
                                }
                            }
                        }
                    }
                }
                if code.contains("compile_error") {
                    json!({"status": "compile_error", "msg": code})
                } else if want_code {
                    json!({"status": "ok", "hash": format!("{:016x}", fnv(&code)), "len": code.len(), "code": code})
                } else {
                    json!({"status": "ok", "hash": format!("{:016x}", fnv(&code)), "len": code.len()})
                }
            }
            Err(e) => json!({"status": "panic", "msg": panic_msg(e)}),
        }
    }

    pub fn main() {
        std::panic::set_hook(Box::new(|_| {}));
        let stdin = std::io::stdin();
        let stdout = std::io::stdout();
        for line in stdin.lock().lines() {
            let line = line.unwrap();
            if line.trim().is_empty() {
                continue;
            }
            let req: Value = serde_json::from_str(&line).expect("json");
            let def = req["def"].as_str().unwrap_or("");
            let resp = match req["op"].as_str() {
                Some("expand") => expand(def, req["code"].as_bool().unwrap_or(false), req["twice"].as_bool().unwrap_or(false)),
                Some("parse") => parse(def),
                _ => json!({"status": "bad_request"}),
            };
            let mut o = stdout.lock();
            writeln!(o, "{}", resp).unwrap();
            o.flush().unwrap();
        }
    }
}

fn main() {
    // Expansion of deeply nested definitions recurses; give the worker a generous stack.
    std::thread::Builder::new()
        .stack_size(256 << 20)
        .spawn(worker::main)
        .unwrap()
        .join()
        .unwrap();
}
