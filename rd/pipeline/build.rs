// Copies /repo/crates/lexgen/src into OUT_DIR and adapts the three entry-point lines of lib.rs so
// that the macro's pipeline can be called as an ordinary function on proc_macro2 token streams.
// Everything else is the repository's source, byte for byte.
use std::fs;
use std::path::{Path, PathBuf};

fn copy_dir(from: &Path, to: &Path) {
    fs::create_dir_all(to).unwrap();
    for e in fs::read_dir(from).unwrap() {
        let e = e.unwrap();
        let p = e.path();
        let dst = to.join(e.file_name());
        if p.is_dir() {
            copy_dir(&p, &dst);
        } else {
            fs::copy(&p, &dst).unwrap();
        }
    }
}

fn main() {
    let src = PathBuf::from(
        std::env::var("VERIF_LEXGEN_SRC").unwrap_or_else(|_| "/repo/crates/lexgen/src".into()),
    );
    println!("cargo:rerun-if-changed={}", src.display());
    println!("cargo:rerun-if-env-changed=VERIF_LEXGEN_SRC");
    let out = PathBuf::from(std::env::var("OUT_DIR").unwrap()).join("lexgen_src");
    let _ = fs::remove_dir_all(&out);
    copy_dir(&src, &out);

    let lib = fs::read_to_string(out.join("lib.rs")).unwrap();
    let mut o = String::new();
    let mut in_allow = false;
    let mut n_proc_macro = 0;
    let mut n_use = 0;
    let mut n_parse = 0;
    for line in lib.lines() {
        let t = line.trim_start();
        if t.starts_with("//!") {
            continue;
        }
        if t.starts_with("#![") {
            if !t.contains(']') {
                in_allow = true;
            }
            continue;
        }
        if in_allow {
            if t.starts_with(")]") {
                in_allow = false;
            }
            continue;
        }
        if t == "#[proc_macro]" {
            n_proc_macro += 1;
            continue;
        }
        let mut l = line.to_string();
        if l.contains("use proc_macro::TokenStream;") {
            l = l.replace("use proc_macro::TokenStream;", "use proc_macro2::TokenStream;");
            n_use += 1;
        }
        if l.contains(".parse(input)") {
            l = l.replace(".parse(input)", ".parse2(input)");
            n_parse += 1;
        }
        o.push_str(&l);
        o.push('\n');
    }
    if n_proc_macro != 1 || n_use != 1 || n_parse != 1 {
        panic!(
            "VERIF-INFRA: lexgen lib.rs entry point changed shape (proc_macro attr {}, use {}, parse {}); \
             the in-process pipeline harness must be adapted",
            n_proc_macro, n_use, n_parse
        );
    }
    fs::write(out.join("lib.rs"), o).unwrap();
}
