//! Runtime support for generated lexer crates: user state with scripted decisions and an action
//! log, glue macros that give every generated lexer the same `run(&Case) -> Trace` entry point,
//! and the request/response server loop.

pub use proto::*;

use std::cell::RefCell;
use std::io::{stdin, stdout, BufReader, BufWriter};
use std::panic::{catch_unwind, AssertUnwindSafe};
use std::sync::atomic::{AtomicU64, Ordering};
use std::sync::Arc;

pub type LLoc = lexgen_util::Loc;

pub fn cv(l: LLoc) -> Loc {
    Loc {
        line: l.line,
        col: l.col,
        byte: l.byte_idx as u32,
    }
}

/// Error payload of `=?` rules.
#[derive(Debug, Clone, PartialEq, Eq)]
pub struct UErr {
    pub nonce: u32,
    pub rule: u32,
}

pub trait ErrPayload {
    fn parts(&self) -> (u32, u32);
}

impl ErrPayload for UErr {
    fn parts(&self) -> (u32, u32) {
        (self.nonce, self.rule)
    }
}

impl ErrPayload for std::convert::Infallible {
    fn parts(&self) -> (u32, u32) {
        match *self {}
    }
}

/// User state of every generated lexer.
#[derive(Debug, Clone)]
pub struct St {
    pub script: Vec<Dec>,
    pub pos: usize,
    pub log: Vec<LogEntry>,
    pub cur_item: u32,
    pub actions: u32,
    pub budget: u32,
    pub use_match: bool,
}

thread_local! {
    static PENDING: RefCell<Option<St>> = const { RefCell::new(None) };
}

thread_local! {
    static INPUT_BUF: RefCell<String> = const { RefCell::new(String::new()) };
}

/// A buffer that is refilled in place for one case after the other (as a program does that reads
/// its inputs into one `String`): consecutive inputs then live at the same address.
pub fn take_input_buf(text: &str) -> String {
    let mut b = INPUT_BUF.with(|b| std::mem::take(&mut *b.borrow_mut()));
    b.clear();
    if b.capacity() < 256 {
        b.reserve(256);
    }
    b.push_str(text);
    b
}

pub fn put_input_buf(b: String) {
    INPUT_BUF.with(|x| *x.borrow_mut() = b);
}

pub fn set_pending(st: St) {
    PENDING.with(|p| *p.borrow_mut() = Some(st));
}

impl St {
    pub fn plain() -> St {
        St {
            script: vec![],
            pos: 0,
            log: vec![],
            cur_item: 0,
            actions: 0,
            budget: u32::MAX,
            use_match: false,
        }
    }

    /// Called first thing by every semantic action that has a body.
    pub fn on_action(
        &mut self,
        rule: u32,
        span: (LLoc, LLoc),
        text: Option<String>,
        peek: Option<char>,
    ) {
        self.actions += 1;
        if self.actions > self.budget {
            panic!("VERIF_BUDGET: more than {} action invocations", self.budget);
        }
        self.log.push(LogEntry {
            item_idx: self.cur_item,
            rule,
            start: cv(span.0),
            end: cv(span.1),
            text,
            peek,
        });
    }

    /// Records what the handle reports right after `reset_match()` (not an action invocation:
    /// not counted against the budget).
    pub fn on_observe(&mut self, rule: u32, span: (LLoc, LLoc), text: Option<String>, peek: Option<char>) {
        self.log.push(LogEntry {
            item_idx: self.cur_item,
            rule: rule | proto::POST_RESET,
            start: cv(span.0),
            end: cv(span.1),
            text,
            peek,
        });
    }

    pub fn next_dec(&mut self) -> Dec {
        let d = self.script.get(self.pos).copied().unwrap_or(Dec::Ret);
        self.pos += 1;
        d
    }
}

/// `new` and `new_from_iter` build the user state with `Default`; the harness hands the intended
/// state over through a thread-local so that all constructors can start from the same state.
impl Default for St {
    fn default() -> St {
        PENDING
            .with(|p| p.borrow_mut().take())
            .unwrap_or_else(St::plain)
    }
}

/// A hand-written cloneable character iterator (neither `Chars` nor `vec::IntoIter`).
#[derive(Debug, Clone)]
pub struct CounterIter {
    pub chars: Arc<Vec<char>>,
    pub pos: usize,
}

impl Iterator for CounterIter {
    type Item = char;
    fn next(&mut self) -> Option<char> {
        let c = self.chars.get(self.pos).copied();
        if c.is_some() {
            self.pos += 1;
        }
        c
    }
}

pub trait Lx: Clone {
    type E: ErrPayload;
    fn nx(&mut self) -> Option<Result<(LLoc, u32, LLoc), lexgen_util::LexerError<Self::E>>>;
    /// The harness's user state; `None` for lexers declared without a user state type.
    fn st(&mut self) -> Option<&mut St>;
}

fn conv<E: ErrPayload>(r: Result<(LLoc, u32, LLoc), lexgen_util::LexerError<E>>) -> Item {
    match r {
        Ok((s, t, e)) => Item::Tok {
            start: cv(s),
            tok: t,
            end: cv(e),
        },
        Err(err) => match err.kind {
            lexgen_util::LexerErrorKind::InvalidToken => Item::Invalid {
                loc: cv(err.location),
            },
            lexgen_util::LexerErrorKind::Custom(e) => {
                let (nonce, rule) = e.parts();
                Item::Custom {
                    nonce,
                    rule,
                    loc: cv(err.location),
                }
            }
        },
    }
}

struct Side<L: Lx> {
    lx: L,
    base: u32,
    run: Run,
    none_seen: bool,
    extra_left: u32,
    finished: bool,
    limit: usize,
}

impl<L: Lx> Side<L> {
    fn step(&mut self) {
        let cur = self.base + self.run.items.len() as u32;
        if let Some(st) = self.lx.st() {
            st.cur_item = cur;
        }
        HEARTBEAT.fetch_add(1, Ordering::Relaxed);
        match self.lx.nx() {
            Some(x) => {
                if self.none_seen {
                    self.run.after_none += 1;
                }
                self.run.items.push(conv(x));
                if self.run.items.len() > self.limit {
                    self.run.runaway = true;
                    self.finished = true;
                }
            }
            None => {
                if self.none_seen {
                    self.extra_left = self.extra_left.saturating_sub(1);
                } else {
                    self.none_seen = true;
                }
                if self.extra_left == 0 {
                    self.finished = true;
                }
            }
        }
    }
    fn finish(mut self) -> Run {
        self.run.log = self.lx.st().map(|st| std::mem::take(&mut st.log)).unwrap_or_default();
        self.run
    }
}

pub fn drive<L: Lx>(lx: L, case: &Case, nchars: usize) -> (Run, Option<Run>) {
    let limit = nchars + 3;
    let mut a = Side {
        lx,
        base: 0,
        run: Run::default(),
        none_seen: false,
        extra_left: case.extra_nexts as u32,
        finished: false,
        limit,
    };
    let k = match case.clone_at {
        None => {
            while !a.finished {
                a.step();
            }
            return (a.finish(), None);
        }
        Some(k) => k as usize,
    };
    while !a.finished && a.run.items.len() < k {
        a.step();
    }
    let mut b = Side {
        lx: a.lx.clone(),
        base: a.run.items.len() as u32,
        run: Run::default(),
        none_seen: a.none_seen,
        extra_left: (case.extra_nexts as u32).max(1),
        finished: false,
        limit,
    };
    let mut i = 0u32;
    while !a.finished || !b.finished {
        let pick_b = (case.sched >> (i % 64)) & 1 == 1;
        i += 1;
        if (pick_b && !b.finished) || a.finished {
            b.step();
        } else {
            a.step();
        }
    }
    (a.finish(), Some(b.finish()))
}

pub fn initial_state(case: &Case, nchars: usize) -> St {
    St {
        script: case.script.clone(),
        pos: 0,
        log: vec![],
        cur_item: 0,
        actions: 0,
        budget: nchars as u32 + 2,
        use_match: case.ctor.is_str(),
    }
}

pub fn run_case<F: FnOnce(&Case, St, Vec<char>) -> (Run, Option<Run>)>(case: &Case, f: F) -> Trace {
    let chars: Vec<char> = case.input.chars().collect();
    let st = initial_state(case, chars.len());
    match catch_unwind(AssertUnwindSafe(|| f(case, st, chars))) {
        Ok((a, b)) => Trace { a, b, panic: None },
        Err(e) => {
            let msg = if let Some(s) = e.downcast_ref::<&str>() {
                s.to_string()
            } else if let Some(s) = e.downcast_ref::<String>() {
                s.clone()
            } else {
                "<non-string panic>".to_string()
            };
            PENDING.with(|p| *p.borrow_mut() = None);
            Trace {
                a: Run::default(),
                b: None,
                panic: Some(msg),
            }
        }
    }
}

/// Implements `rt::Lx` for a generated lexer and defines `run` and `rule_of` in the module.
#[macro_export]
macro_rules! glue {
    ($Lexer:ident, $Err:ty, $Rule:ident, [$($set:ident),*]) => {
        #[allow(dead_code)]
        fn rule_of(k: u32) -> $Rule {
            const R: &[$Rule] = &[$($Rule::$set),*];
            R[(k as usize) % R.len()]
        }
        $crate::glue!(@common $Lexer, $Err);
    };
    ($Lexer:ident, $Err:ty) => {
        $crate::glue!(@common $Lexer, $Err);
    };
    (@common $Lexer:ident, $Err:ty) => {
        impl<'input, I: Iterator<Item = char> + Clone> $crate::Lx for $Lexer<'input, I> {
            type E = $Err;
            fn nx(&mut self) -> Option<Result<($crate::LLoc, u32, $crate::LLoc), ::lexgen_util::LexerError<$Err>>> {
                Iterator::next(self)
            }
            fn st(&mut self) -> Option<&mut $crate::St> {
                // only the documented handle API is used (no access to generated fields)
                Some(self.state())
            }
        }

        pub fn run(case: &$crate::Case) -> $crate::Trace {
            $crate::run_case(case, |case, st, chars| {
                let n = chars.len();
                match case.ctor {
                    $crate::Ctor::New => {
                        // string input in a buffer that is reused from case to case
                        let buf = $crate::take_input_buf(&case.input);
                        $crate::set_pending(st);
                        let r = $crate::drive($Lexer::new(&buf), case, n);
                        $crate::put_input_buf(buf);
                        r
                    }
                    $crate::Ctor::NewWithState if case.input.len() % 2 == 0 => {
                        let buf = $crate::take_input_buf(&case.input);
                        let r = $crate::drive($Lexer::new_with_state(&buf, st), case, n);
                        $crate::put_input_buf(buf);
                        r
                    }
                    $crate::Ctor::NewWithState => {
                        $crate::drive($Lexer::new_with_state(&case.input, st), case, n)
                    }
                    $crate::Ctor::FromIterVec => {
                        $crate::set_pending(st);
                        $crate::drive($Lexer::new_from_iter(chars.into_iter()), case, n)
                    }
                    $crate::Ctor::FromIterVecWithState => {
                        $crate::drive($Lexer::new_from_iter_with_state(chars.into_iter(), st), case, n)
                    }
                    $crate::Ctor::FromIterChars => {
                        $crate::set_pending(st);
                        $crate::drive($Lexer::new_from_iter(case.input.chars()), case, n)
                    }
                    $crate::Ctor::FromIterCounterWithState => {
                        let it = $crate::CounterIter { chars: ::std::sync::Arc::new(chars), pos: 0 };
                        $crate::drive($Lexer::new_from_iter_with_state(it, st), case, n)
                    }
                }
            })
        }
    };
}

/// Same for a lexer declared without a user state type (`Lexer -> Token;`): the state is `()`,
/// nothing is logged, the constructors are the stateless ones (and the `_with_state` ones with
/// `()`).
#[macro_export]
macro_rules! glue0 {
    ($Lexer:ident, $Err:ty) => {
        impl<'input, I: Iterator<Item = char> + Clone> $crate::Lx for $Lexer<'input, I> {
            type E = $Err;
            fn nx(&mut self) -> Option<Result<($crate::LLoc, u32, $crate::LLoc), ::lexgen_util::LexerError<$Err>>> {
                Iterator::next(self)
            }
            fn st(&mut self) -> Option<&mut $crate::St> {
                None
            }
        }

        pub fn run(case: &$crate::Case) -> $crate::Trace {
            $crate::run_case(case, |case, _st, chars| {
                let n = chars.len();
                match case.ctor {
                    $crate::Ctor::New => {
                        let buf = $crate::take_input_buf(&case.input);
                        let r = $crate::drive($Lexer::new(&buf), case, n);
                        $crate::put_input_buf(buf);
                        r
                    }
                    $crate::Ctor::NewWithState => $crate::drive($Lexer::new_with_state(&case.input, ()), case, n),
                    $crate::Ctor::FromIterVec => $crate::drive($Lexer::new_from_iter(chars.into_iter()), case, n),
                    $crate::Ctor::FromIterVecWithState => {
                        $crate::drive($Lexer::new_from_iter_with_state(chars.into_iter(), ()), case, n)
                    }
                    $crate::Ctor::FromIterChars => $crate::drive($Lexer::new_from_iter(case.input.chars()), case, n),
                    $crate::Ctor::FromIterCounterWithState => {
                        let it = $crate::CounterIter { chars: ::std::sync::Arc::new(chars), pos: 0 };
                        $crate::drive($Lexer::new_from_iter_with_state(it, ()), case, n)
                    }
                }
            })
        }
    };
}

/// Body of an infallible (`=>`) semantic action. `mode` is one of
/// `ret`, `cont`, `rcont`, `sw(k)`, `swret(k)`, `script`, `script_nosw`.
#[macro_export]
macro_rules! act {
    (@log $l:ident, $id:expr) => {{
        let __span = $l.match_loc();
        let __text = if $l.state().use_match { Some($l.match_().to_string()) } else { None };
        let __peek = $l.peek();
        $l.state().on_action($id, __span, __text, __peek);
    }};
    (@reset $l:ident, $id:expr) => {{
        $l.reset_match();
        let __span = $l.match_loc();
        let __text = if $l.state().use_match { Some($l.match_().to_string()) } else { None };
        let __peek = $l.peek();
        $l.state().on_observe($id, __span, __text, __peek);
    }};
    ($l:ident, $id:expr, ret) => {{
        $crate::act!(@log $l, $id);
        $l.return_($id)
    }};
    ($l:ident, $id:expr, cont) => {{
        $crate::act!(@log $l, $id);
        $l.continue_()
    }};
    ($l:ident, $id:expr, rcont) => {{
        $crate::act!(@log $l, $id);
        $crate::act!(@reset $l, $id);
        $l.continue_()
    }};
    ($l:ident, $id:expr, sw($k:expr)) => {{
        $crate::act!(@log $l, $id);
        $l.switch(rule_of($k))
    }};
    ($l:ident, $id:expr, swret($k:expr)) => {{
        $crate::act!(@log $l, $id);
        $l.switch_and_return(rule_of($k), $id)
    }};
    ($l:ident, $id:expr, script) => {{
        $crate::act!(@log $l, $id);
        match $l.state().next_dec() {
            $crate::Dec::Ret | $crate::Dec::Err(_) => $l.return_($id),
            $crate::Dec::Cont => $l.continue_(),
            $crate::Dec::ResetCont => { $crate::act!(@reset $l, $id); $l.continue_() }
            $crate::Dec::Switch(k) => $l.switch(rule_of(k)),
            $crate::Dec::SwitchRet(k) => $l.switch_and_return(rule_of(k), $id),
            $crate::Dec::ResetRet => { $crate::act!(@reset $l, $id); $l.return_($id) }
            $crate::Dec::ResetSwitch(k) => { $crate::act!(@reset $l, $id); $l.switch(rule_of(k)) }
        }
    }};
    ($l:ident, $id:expr, script_nosw) => {{
        $crate::act!(@log $l, $id);
        match $l.state().next_dec() {
            $crate::Dec::Ret | $crate::Dec::Err(_) | $crate::Dec::SwitchRet(_) => $l.return_($id),
            $crate::Dec::Cont | $crate::Dec::Switch(_) => $l.continue_(),
            $crate::Dec::ResetCont | $crate::Dec::ResetSwitch(_) => { $crate::act!(@reset $l, $id); $l.continue_() }
            $crate::Dec::ResetRet => { $crate::act!(@reset $l, $id); $l.return_($id) }
        }
    }};
}

/// Body of a fallible (`=?`) semantic action; modes `script`, `script_nosw`, `err(nonce)`, `ok`.
#[macro_export]
macro_rules! actf {
    ($l:ident, $id:expr, ok) => {{
        $crate::act!(@log $l, $id);
        $l.return_(Ok($id))
    }};
    ($l:ident, $id:expr, err($n:expr)) => {{
        $crate::act!(@log $l, $id);
        $l.return_(Err($crate::UErr { nonce: $n, rule: $id }))
    }};
    ($l:ident, $id:expr, script) => {{
        $crate::act!(@log $l, $id);
        match $l.state().next_dec() {
            $crate::Dec::Ret => $l.return_(Ok($id)),
            // a nonce with a non-zero top byte also names a rule set: switch AND fail
            $crate::Dec::Err(n) if n >> 24 != 0 => {
                $l.switch_and_return(rule_of((n >> 24) - 1), Err($crate::UErr { nonce: n, rule: $id }))
            }
            $crate::Dec::Err(n) => $l.return_(Err($crate::UErr { nonce: n, rule: $id })),
            $crate::Dec::Cont => $l.continue_(),
            $crate::Dec::ResetCont => { $crate::act!(@reset $l, $id); $l.continue_() }
            $crate::Dec::Switch(k) => $l.switch(rule_of(k)),
            $crate::Dec::SwitchRet(k) => $l.switch_and_return(rule_of(k), Ok($id)),
            $crate::Dec::ResetRet => { $crate::act!(@reset $l, $id); $l.return_(Ok($id)) }
            $crate::Dec::ResetSwitch(k) => { $crate::act!(@reset $l, $id); $l.switch(rule_of(k)) }
        }
    }};
    ($l:ident, $id:expr, script_nosw) => {{
        $crate::act!(@log $l, $id);
        match $l.state().next_dec() {
            $crate::Dec::Ret | $crate::Dec::SwitchRet(_) => $l.return_(Ok($id)),
            $crate::Dec::Err(n) => $l.return_(Err($crate::UErr { nonce: n, rule: $id })),
            $crate::Dec::Cont | $crate::Dec::Switch(_) => $l.continue_(),
            $crate::Dec::ResetCont | $crate::Dec::ResetSwitch(_) => { $crate::act!(@reset $l, $id); $l.continue_() }
            $crate::Dec::ResetRet => { $crate::act!(@reset $l, $id); $l.return_(Ok($id)) }
        }
    }};
}

// ---------------------------------------------------------------------------------------------
// Server loop

static HEARTBEAT: AtomicU64 = AtomicU64::new(0);
static BUSY: AtomicU64 = AtomicU64::new(0);

pub type RunFn = fn(&Case) -> Trace;

/// Reads request frames from stdin, answers with response frames on stdout. A watchdog thread
/// terminates the process (exit code 3) when a single case makes no progress for
/// `VERIF_CASE_TIMEOUT_MS` (default 20000) milliseconds; the orchestrator then re-runs the batch
/// case by case to find the culprit.
pub fn serve(lexers: &[(&str, RunFn)]) {
    std::panic::set_hook(Box::new(|_| {}));
    let timeout_ms: u64 = std::env::var("VERIF_CASE_TIMEOUT_MS")
        .ok()
        .and_then(|s| s.parse().ok())
        .unwrap_or(20000);
    std::thread::spawn(move || {
        let mut last = (0u64, std::time::Instant::now());
        loop {
            std::thread::sleep(std::time::Duration::from_millis(50));
            let busy = BUSY.load(Ordering::Relaxed);
            if busy == 0 {
                last = (0, std::time::Instant::now());
                continue;
            }
            if busy != last.0 {
                last = (busy, std::time::Instant::now());
            } else if last.1.elapsed().as_millis() as u64 > timeout_ms {
                eprintln!("VERIF_HANG case_seq={}", busy);
                std::process::exit(3);
            }
        }
    });
    if std::env::args().any(|a| a == "--list") {
        for (name, _) in lexers {
            println!("{}", name);
        }
        return;
    }
    let mut rd = BufReader::new(stdin().lock());
    let mut wr = BufWriter::new(stdout().lock());
    let mut seq = 0u64;
    while let Some(frame) = read_frame(&mut rd).expect("read") {
        let (idx, cases) = dec_request(&frame);
        let f = lexers[idx as usize].1;
        let mut traces = Vec::with_capacity(cases.len());
        for c in &cases {
            seq += 1;
            BUSY.store(seq, Ordering::Relaxed);
            traces.push(f(c));
        }
        BUSY.store(0, Ordering::Relaxed);
        write_frame(&mut wr, &enc_response(&traces)).expect("write");
    }
}
