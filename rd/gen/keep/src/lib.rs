// placeholder so that the workspace glob gen/* always matches
